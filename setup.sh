#!/bin/bash
# Offline setup: nothing to build (pure Python, nixio is an editable install of /repo).
# Verifies the interpreter, the import root and the harness self-test.
set -e
cd "$(dirname "$(readlink -f "$0")")"
mkdir -p evidence replays
export PYTHONDONTWRITEBYTECODE=1 PYTHONHASHSEED=0
/venv/bin/python - <<'PY'
import sys
sys.path.insert(0, ".")
from mc import env
import nixio, numpy, h5py
print("nixio from", nixio.__file__, "numpy", numpy.__version__, "h5py", h5py.__version__)
PY
/venv/bin/python tools/gen_manifest.py --check
echo setup ok
