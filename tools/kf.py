#!/venv/bin/python
"""Maintain known_findings.json (edited by hand / by this tool only, never by a check).
   kf.py open  <property> <signature> <what>
   kf.py fixed <property> <commit> <what>
"""
import json, os, sys
P = os.path.join(os.path.dirname(os.path.dirname(os.path.realpath(__file__))), "known_findings.json")
kf = json.load(open(P))
cmd = sys.argv[1]
if cmd == "open":
    _, _, prop, sig, what = sys.argv
    kf = [k for k in kf if not (k.get("signature") == sig and k.get("status") == "open")]
    kf.append({"status": "open", "property": prop, "signature": sig, "what": what})
elif cmd == "fixed":
    _, _, prop, commit, what = sys.argv
    kf.append({"status": "fixed", "property": prop, "commit": commit, "what": what,
               "line": "fixed: property=%s %s %s" % (prop, commit, what)})
json.dump(kf, open(P, "w"), indent=1, ensure_ascii=False)
print(len(kf), "entries")
