#!/venv/bin/python
"""tools/import_seed.py <outdir> <i> <property> <needs...>
Copies a confirmed seeded defect into /verif/seeded/<property>_<n>/ (patch.diff, demo.py, meta.json)."""
import json, os, shutil, sys
out, i, prop = sys.argv[1], sys.argv[2], sys.argv[3]
needs = " ".join(sys.argv[4:])
base = "/verif/seeded"
os.makedirs(base, exist_ok=True)
tag = os.path.basename(out).replace("out_", "")
d = os.path.join(base, os.environ["SEED_NAME"]) if os.environ.get("SEED_NAME") else os.path.join(base, "%s_%s_%s" % (prop, tag, i) if tag != prop else "%s_%s" % (prop, i))
os.makedirs(d, exist_ok=True)
shutil.copy(os.path.join(out, "patch%s.diff" % i), os.path.join(d, "patch.diff"))
shutil.copy(os.path.join(out, "demo%s.py" % i), os.path.join(d, "demo.py"))
conf = {}
cf = "/tmp/confirm/%s_%s.txt" % (os.path.basename(out), i)
if os.path.exists(cf):
    for line in open(cf):
        line = line.strip()
        if "=" in line and not line.startswith("=="):
            k, v = line.split("=", 1)
            conf[k] = v
        elif "passed" in line:
            conf["test_suite"] = line
meta = {
    "property": prop,
    "origin": "independent sub-agent given only the property text and a scratch worktree (batch %s)" % tag,
    "needs_to_manifest": needs,
    "confirmed": {
        "how": "tools/confirm_seed.sh in a scratch worktree of /repo HEAD: demo on clean tree, git apply, demo on patched tree, "
               "repository test suite with the 4 always-failing doc-example tests deselected",
        **conf,
    },
    "files": files if (files := sorted(set(l.split(" b/")[-1].strip() for l in open(os.path.join(d, "patch.diff")) if l.startswith("diff --git")))) else [],
}
mp = os.path.join(d, "meta.json")
if os.path.exists(mp):
    old = json.load(open(mp))
    for k in ("detected_by", "detection_note"):
        if k in old:
            meta[k] = old[k]
json.dump(meta, open(mp, "w"), indent=1, ensure_ascii=False)
print("imported", d)
