#!/bin/bash
# tools/cov_audit.sh [tier] [Cxx ...]  — line/branch coverage of /repo/nixio reached by the checks (audit aid, not evidence).
# Each check runs on a prefix of its shuffled case list (VERIF_CASE_LIMIT, default 400) with few workers.
# Writes /dev/shm/covaudit/report.txt (missing lines per file).
here="$(dirname "$(readlink -f "$0")")"; cd "$here/.."
tier="${1:-quick}"; shift
checks="$@"; [ -z "$checks" ] && checks="$(seq -f 'C%02g' 1 20)"
W=/dev/shm/covaudit; rm -rf $W; mkdir -p $W/data $W/out
cat > $W/rc <<EOC
[run]
source = /repo/nixio
branch = True
parallel = True
concurrency = multiprocessing
data_file = $W/data/.coverage
omit = */test/*
sigterm = True
EOC
export VERIF_CASE_LIMIT=${VERIF_CASE_LIMIT:-400} VERIF_WORKERS=${VERIF_WORKERS:-4}
export PYTHONHASHSEED=0 PYTHONDONTWRITEBYTECODE=1 NIXPY_VERIF=1 HDF5_USE_FILE_LOCKING=FALSE OMP_NUM_THREADS=1 VERIF_OUT=$W/out
for c in $checks; do
  timeout 1200 /venv/bin/python -W ignore -m coverage run --rcfile=$W/rc -m mc.core $c $tier 2>&1 | tail -1 | cut -c1-200
done
cd $W && /venv/bin/python -m coverage combine --rcfile=$W/rc -q
/venv/bin/python -m coverage report --rcfile=$W/rc -m > $W/report.txt 2>&1
tail -45 $W/report.txt | cut -c1-60
