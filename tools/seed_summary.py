#!/venv/bin/python
"""Writes seeded/RESULTS.md from the meta.json files (no check is run here).
Waves 1-3: outcome of tools/eval_all_seeds.py (recorded as quick_check_result).
Waves 4-7: outcome of the evaluation at import time (tools/wave.sh / try_patch_wt.sh), recorded as first_run."""
import glob, json, os
base = os.path.join(os.path.dirname(os.path.dirname(os.path.realpath(__file__))), "seeded")
rows = []
for d in sorted(glob.glob(base + "/C*/")):
    name = os.path.basename(d.rstrip("/"))
    m = json.load(open(d + "meta.json"))
    wave = m.get("wave", "1-3")
    q = m.get("quick_check_result")
    if q:
        status = "reported (exit %s, %s violating signatures, e.g. `%s`)" % (q["exit"], q["violations"], (q.get("first_signatures") or [""])[0][:90])
        first = m.get("detection_note", "")
    else:
        fr = m.get("first_run", "")
        if m.get("detected_by", "x") is None:
            status = "NOT reported"
        else:
            status = "reported"
        first = fr
    rows.append((name, m["property"], str(wave), status, first, m.get("needs_to_manifest", "")))
with open(base + "/RESULTS.md", "w") as fh:
    fh.write("# Seeded defects\n\n%d defects seeded by independent sub-agents (one property text and a scratch worktree each), every one confirmed "
             "with tools/confirm_seed.sh (demonstration passes on the clean tree, fails with the patch, repository test suite still passes).\n\n"
             "Waves 1-3 were re-run against the quick checks with tools/eval_all_seeds.py on the tree with the session-2 fixes; waves 4-7 were run "
             "against the quick check of their property when they were imported (tools/wave.sh); where a seed was missed, the check was strengthened "
             "and the seed run again. `first run` says which.\n\n" % len(rows))
    fh.write("| seed | property | wave | final status | first run / strengthening | what the defect needs |\n|---|---|---|---|---|---|\n")
    for r_ in rows:
        fh.write("| %s | %s | %s | %s | %s | %s |\n" % tuple(x.replace("|", "/").replace("\n", " ") for x in r_))
    nrep = sum(1 for r_ in rows if r_[3].startswith("reported"))
    fh.write("\n%d of %d kept seeds are reported by the quick check of their property.\n" % (nrep, len(rows)))
print(len(rows), "seeds;", sum(1 for r_ in rows if r_[3].startswith("reported")), "reported")
