#!/bin/bash
# tools/eval_seeds.sh <tier> <id> [<id>...] : runs check <id> against /tmp/out_<id>/patch*.diff (one at a time, /repo reverted after each)
tier="$1"; shift
for id in "$@"; do
  for p in /tmp/out_$id/patch[0-9].diff; do
    n=$(basename $p .diff)
    out=/tmp/eval_${id}_$n.txt
    /verif/tools/try_patch.sh $p $tier $id > $out 2>&1
    v=$(grep -c '^VIOLATION' $out); e=$(grep -o 'exit=[0-9]*' $out | head -1)
    echo "$id $n $e violations=$v $(grep -m1 'signature' $out | cut -c1-150)"
  done
done
