#!/venv/bin/python
"""Writes /verif/MANIFEST.json from the table below (or, with --check, verifies it)."""
import json
import os
import sys

VERIF = os.path.dirname(os.path.dirname(os.path.realpath(__file__)))

BASELINE = ("cd /repo && /venv/bin/python -m pytest -ra -q -p no:cacheprovider --timeout=900 "
            "--continue-on-collection-errors")

E1 = "bounded exhaustive exploration of operation histories on the real implementation against a reference model (explicit-state / stateless model checking)"
E1S = E1 + "; plus explicit-state breadth-first search with state de-duplication on the canonical file state, every transition fired on a byte copy of the real file and checked against the model (mc/bfs.py)"
E2 = "exhaustive enumeration of the complete Cartesian product of small input domains on the real implementation against an independent reference function"
E3 = "exhaustive enumeration of fault / interruption / crash points over a bounded set of histories on the real implementation"

CHECKS = {
    "C01": ("model_checking", E1, "3 C01",
            "every dtype x shape x creation path x write/assign/append/resize history (bounded depth) x compression combination is executed on the real library and compared with a NumPy reference after every step and after reopen",
            "small-scope: extents <= 3, depth <= 3; HDF5/h5py trusted for the raw bytes"),
    "C02": ("model_checking", E1S, "3 C02",
            "all operation histories up to the depth bound over a collision-forcing alphabet through two handles (un-merged), and every transition from every canonical state within the BFS depth (merged); complete introspective walk compared before close / after reopen RO / RW and with the reference model at every step; a twin file open in the same process must stay unchanged",
            "small-scope: 2 names per kind, depth bound; state outside the HDF5 file is limited to handle caches and whatever a twin file in the same process can reveal"),
    "C03": ("model_checking", E1, "3 C03",
            "all create/delete histories per container kind over an adversarial name alphabet; every lookup form cross-checked against the creation-ordered model sequence after every step",
            "small-scope: history depth and alphabet are bounded"),
    "C04": ("model_checking", E1S, "3 C04",
            "every delete / unlink of every entity by every addressing mode in every link topology within the bound (incl. links that cross block boundaries), chained; link topologies enumerated by a de-duplicated BFS; whole-file walk compared with the model and an HDF5-level scan for deleted ids",
            "small-scope: <= k links added to the seeds"),
    "C05": ("model_checking", E1, "3 C05",
            "full path x path mutation/read matrix for every link kind, every append candidate class, every dimension-link index specification",
            "small-scope topologies; ranks <= 3"),
    "C06": ("exploration", E2, "3 C06",
            "every index tuple of the alphabet on every shape and every view window, reads and writes, compared with NumPy on an in-memory copy",
            "extents <= 3 (4 in thorough); index alphabet exceeds the extent by one on both sides"),
    "C07": ("exploration", E2, "3 C07",
            "every descriptor parameterisation x every position class x every mode, compared with the order-theoretic definition over exact rationals",
            "dyadic rationals only, so the reference is exact; positions within 1e-5 of a sample but not on it are not generated"),
    "C08": ("exploration", E2, "3 C08",
            "every descriptor mix x position/extent class x stop rule x unit pair x link type; result compared with the set of samples whose coordinates lie in the region",
            "ranks <= 3, extents <= 5"),
    "C09": ("exploration", E2, "3 C09",
            "the complete product of the SI tables (21 x 21 prefix pairs x 31 units x powers), all prefix triples, all cross unit/power pairs, all 2..4-atom compounds over 8 atoms, junk strings; factors compared with exact powers of ten",
            "tables taken from the statement; powers -3..3"),
    "C10": ("model_checking", E1, "3 C10",
            "all histories over create/assign/extend/clear/dict-style operations per value type, every mixed-type candidate; values compared with a list model after every step and after reopen",
            "small-scope: lists <= 3 values, depth bound"),
    "C11": ("exploration", E2 + "; plus " + E3, "3 C11",
            "the full version lattice x mode x id x format tag, and every mutator (by introspection) on read-only handles with a writable twin as differential oracle",
            "version grid 0..2 x 0..3 x 0..3"),
    "C12": ("fault_enumeration", E3, "3 C12",
            "every (call site x invalid-argument class) injected at every reachable state within the bound; whole-file walk and raw digest compared before/after",
            "fault catalogue is hand-enumerated from the API"),
    "C13": ("exploration", E2, "3 C13",
            "every ordered forest up to n nodes with repeated names, every limit, filter and handle kind; every metadata/source link assignment; compared with a plain tree model",
            "forests <= 4 (5) nodes"),
    "C14": ("fault_enumeration", E3, "3 C14",
            "every catalogue inconsistency injected at every eligible object of generated well-formed files, singly and pairwise; compared with an independent reference validator",
            "catalogue from the statement; warnings not asserted"),
    "C15": ("exploration", E2, "3 C15",
            "dtype x shape x coefficients x origin x read path x set/clear history; calibrated reads compared with Horner evaluation, raw values read with h5py",
            "coefficients over a 4-value alphabet"),
    "C16": ("model_checking", E1, "3 C16",
            "all table-operation histories up to the depth bound per schema and creation variant; every reader compared with a column-list model after every step and after reopen",
            "schemas <= 4 (6) columns, depth bound"),
    "C17": ("fault_enumeration", E3, "3 C17",
            "every flush/close point of every writer history in the bound, followed by a real SIGKILL of the writer process; survivor file opened RO and RW and compared with the walk recorded at the kill point",
            "SIGKILL keeps the OS page cache: power loss / torn sectors are not modelled"),
    "C18": ("fault_enumeration", E3, "3 C18",
            "every old-format file of the family x every interruption point (and pair of points) between conversion steps, followed by a re-run; result compared with the uninterrupted upgrade and the pre-upgrade content",
            "old-format files are crafted by the harness with raw h5py"),
    "C19": ("model_checking", E1, "3 C19",
            "every mutator x both auto-update settings under a controlled clock; timestamps of all entities compared before/after every step; structured cover of whole-second timestamps 1970-2100",
            "clock replaced through the module attribute seam"),
    "C20": ("model_checking", E1, "3 C20",
            "kind x id policy x name x destination x handle kind, followed by every single mutation of either side; walks of source and copy compared",
            "sources taken from the rich seed and depth-1 variants"),
}


def build():
    checks = []
    na = []
    for pid in sorted(CHECKS):
        level, tech, ref, text, note = CHECKS[pid]
        if os.path.exists(os.path.join(VERIF, "checks", pid + ".py")):
            checks.append({
                "property_id": pid,
                "quick_cmd": "./check %s quick" % pid,
                "thorough_cmd": "./check %s thorough" % pid,
                "evidence_file": "/verif/evidence/%s.json" % pid,
                "replay_cmd_template": "./check %s --replay {path}" % pid,
                "engine": "mc",
                "level_claimed": {"category": level, "text": text, "design_ref": "DESIGN.md section " + ref},
                "level_note": note,
                "technique": tech,
            })
        else:
            na.append({"property_id": pid,
                       "reason": "check not built yet (planned: DESIGN.md section %s); not claimed at this commit" % ref})
    return {
        "version": 1,
        "setup_cmd": "./setup.sh",
        "hooks": {
            "guard": "NIXPY_VERIF",
            "enable": "no source hooks: checks patch nixio.util.create_id / now_int module attributes at run time (mc/env.py); NIXPY_VERIF=1 is exported by ./check for form",
            "baseline_off_cmd": BASELINE,
            "source_commits": [],
            "add_only": True,
        },
        "engines": [{
            "name": "mc", "path": "/verif/mc",
            "serves_properties": [c["property_id"] for c in checks],
            "kind_free_text": "hand-written bounded exhaustive explorer for Python: history explorer vs reference model (E1, un-merged sequences), explicit-state BFS with de-duplication on the canonical file state (E1s), product-domain enumerator (E2), fault-point enumerator (E3); 16 worker processes",
        }],
        "checks": checks,
        "not_applicable": na,
        "notes": "All checks run the real nixio from /repo's working tree (editable install; fresh interpreter per run). known_findings.json lists genuine defects recorded rather than repaired.",
    }


def main():
    m = build()
    path = os.path.join(VERIF, "MANIFEST.json")
    if "--check" in sys.argv:
        with open(path) as fh:
            cur = json.load(fh)
        if cur != m:
            print("MANIFEST.json is stale: run tools/gen_manifest.py")
            return 1
        return 0
    with open(path, "w") as fh:
        json.dump(m, fh, indent=1)
    print("wrote", path, "checks:", len(m["checks"]), "not_applicable:", len(m["not_applicable"]))
    return 0


if __name__ == "__main__":
    sys.exit(main())
