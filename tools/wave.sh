#!/bin/bash
# tools/wave.sh <outdir> <i> <Cxx> <seedname> [tier]: confirm an agent's patch, run the property's check against it, print a summary
out="$1"; i="$2"; prop="$3"; name="$4"; tier="${5:-quick}"
here="$(dirname "$(readlink -f "$0")")"
$here/confirm_seed.sh $out $i
echo "--- check $prop $tier against $out/patch$i.diff"
$here/try_patch_wt.sh $out/patch$i.diff $tier $prop 2>&1 | cut -c1-300 | grep -v "^KNOWN" | awk '/^VIOLATION/{n++} n<=6 || /quick:|thorough:|^exit=|INFRA|worktree/'
