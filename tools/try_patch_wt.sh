#!/bin/bash
# tools/try_patch_wt.sh <patch.diff> <tier> <Cxx> [Cyy ...]
# Runs checks against a scratch worktree of /repo HEAD with the patch applied (the /repo tree itself is not touched;
# evidence and replays go to /tmp/evalout/<tag>). The worktree is removed afterwards.
here="$(dirname "$(readlink -f "$0")")"; patch="$(readlink -f "$1")"; tier="$2"; shift 2
tag="$(basename $(dirname $patch))_$(basename $patch .diff)_$$"
wt=/tmp/mwt_$tag
for try in 1 2 3 4 5; do git -C /repo worktree add -q --detach $wt HEAD && break; sleep 3; done; [ -d $wt ] || { echo "INFRA: worktree add failed"; exit 2; }
trap 'git -C /repo worktree remove --force '$wt'; echo "[worktree removed]"' EXIT
git -C $wt apply "$patch" || exit 2
cd "$here/.."
for c in "$@"; do
  NIXPY_VERIF_SRC=$wt VERIF_OUT=/tmp/evalout/$tag ./check "$c" "$tier" 2>&1 | grep -E "^(VIOLATION|KNOWN|  signature|  what|C[0-9]+ (quick|thorough):|INFRA)" | cut -c1-400
  echo "exit=${PIPESTATUS[0]} check=$c"
done
