#!/bin/bash
# tools/confirm_seed.sh <outdir> <i>   -> confirms patch<i>.diff of an agent output dir in a scratch worktree
out="$1"; i="$2"; tag="$(basename $out)_$i"
wt=/tmp/cf_$tag
res=/tmp/confirm/$tag.txt; mkdir -p /tmp/confirm
for try in 1 2 3 4 5; do git -C /repo worktree add -q --detach $wt HEAD && break; sleep 3; done; [ -d $wt ] || { echo "INFRA: worktree add failed"; exit 2; }
cd $wt
{
echo "== $tag"
/venv/bin/python $out/demo$i.py > /tmp/confirm/$tag.demo_clean.txt 2>&1; echo "demo_clean_exit=$?"
if git apply $out/patch$i.diff; then echo "apply=ok"; else echo "apply=FAILED"; fi
/venv/bin/python $out/demo$i.py > /tmp/confirm/$tag.demo_patched.txt 2>&1; echo "demo_patched_exit=$?"
/venv/bin/python -m pytest -q -p no:cacheprovider --timeout=900 -x --deselect nixio/test/test_doc_examples.py::TestDocumentationExamples::test_spike_features --deselect nixio/test/test_doc_examples.py::TestDocumentationExamples::test_tagged_feature --deselect nixio/test/test_doc_examples.py::TestDocumentationExamples::test_tagging_example --deselect nixio/test/test_doc_examples.py::TestDocumentationExamples::test_untagged_feature 2>&1 | tail -1
} > $res 2>&1
cd /tmp
git -C /repo worktree remove --force $wt
cat $res
