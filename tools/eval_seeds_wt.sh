#!/bin/bash
# tools/eval_seeds_wt.sh <tier> <id> [<id>...] : check <id> against /tmp/out_<id>/patch*.diff in scratch worktrees
tier="$1"; shift
for id in "$@"; do
  for p in /tmp/out_$id/patch[0-9].diff; do
    n=$(basename $p .diff)
    out=/tmp/evalwt_${id}_$n.txt
    /verif/tools/try_patch_wt.sh $p $tier $id > $out 2>&1
    v=$(grep -c '^VIOLATION' $out); e=$(grep -o 'exit=[0-9]*' $out | head -1)
    echo "$id $n $e violations=$v $(grep -m1 'signature' $out | cut -c1-150)"
  done
done
