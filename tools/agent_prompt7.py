import sys
pid = sys.argv[1]
prop = open('/tmp/prop_%s.txt' % pid).read()
print(f"""You are helping to evaluate a verification harness by producing realistic *seeded defects* for the Python library nixio (G-Node/nixpy: the NIX neuroscience data model stored in HDF5 via h5py).

Work ONLY inside your own scratch git worktree of the library: /tmp/wt7_{pid}  (a detached worktree of the repository; do not touch /repo, do not look at or read anything under /verif, do not create other worktrees). Write your results to /tmp/out7_{pid}/ . When your current directory is /tmp/wt7_{pid}, `/venv/bin/python` imports nixio from that worktree (check with `cd /tmp/wt7_{pid} && /venv/bin/python -c "import nixio; print(nixio.__file__)"`). A script stored outside the worktree imports the editable install in /repo unless it starts with `import sys, os; sys.path.insert(0, os.getcwd())` before `import nixio` - put that at the top of every demo and run demos with the worktree as current directory. The test suite drops an untracked lenna.png into the worktree; remove it. There is no network.

The property (a semantic guarantee users of the library rely on):

---
{prop}---

Your task: produce TWO independent, different changes (patches) to the library source under /tmp/wt7_{pid}/nixio (not to its tests) such that each one, applied alone:
  1. BREAKS the property above (for some input / operation sequence / configuration the property quantifies over);
  2. still imports fine and still passes the library's existing test suite: run `cd /tmp/wt7_{pid} && /venv/bin/python -m pytest -q -p no:cacheprovider --timeout=900 2>&1 | tail -15` — exactly these 4 tests fail already on the unmodified tree and may keep failing: test_doc_examples.py::{{test_spike_features,test_tagged_feature,test_tagging_example,test_untagged_feature}}; everything else (287 tests) must still pass with your change;
  3. looks like a realistic mistake a maintainer could make (an off-by-one, a wrong branch condition, a cached value not invalidated, a check moved after the action, a wrong key/attribute name in a rarely used path, an optimisation that is wrong in a corner case, two sites that each look fine alone) — NOT an obviously malicious or random change, and NOT something ordinary use would expose at once. Prefer changes that need something specific to manifest: a multi-step sequence of operations, an unusual (but legal) input, a particular ordering, a second handle to the same entity, a close+reopen at a particular point, names that collide across parents, etc. The two patches should use different mechanisms in different places of the code.

For each patch i in 1..2 deliver in /tmp/out7_{pid}/ :
  - patch<i>.diff : produced with `git -C /tmp/wt7_{pid} diff > /tmp/out7_{pid}/patch<i>.diff` (must apply with `git apply` to a clean checkout of the same commit; library source only);
  - demo<i>.py : a small stand-alone program (uses only nixio, numpy, h5py, tempfile) that exits 0 and prints PASS on the unmodified library and exits 1 and prints FAIL (with a short explanation) when the patch is applied. Run it with `cd /tmp/wt7_{pid} && /venv/bin/python /tmp/out7_{pid}/demo<i>.py`. Verify BOTH outcomes yourself (with the patch applied, and after `git -C /tmp/wt7_{pid} checkout -- .`).
  - an entry in /tmp/out7_{pid}/NOTES.md : which file/function was changed, why it breaks the property, what exactly is needed for the defect to manifest, and the tail of the pytest output you observed with the patch applied.

Between patches restore the worktree with `git -C /tmp/wt7_{pid} checkout -- .` so that every patch is relative to the clean tree. Leave the worktree clean at the end. Keep temporary files out of the worktree (use tempfile / /dev/shm). Do not install anything. When you are done, reply with a 10-line summary (one or two lines per patch: file, mechanism, what is needed to trigger it, test-suite result).""")
