#!/bin/bash
# tools/confirm_batch.sh <prefix> <Cxx> ... : confirm only (demo clean / patched, test suite), no check run
pre="$1"; shift
here="$(dirname "$(readlink -f "$0")")"
for p in "$@"; do for i in 1 2; do
  [ -f /tmp/${pre}_$p/patch$i.diff ] || continue
  $here/confirm_seed.sh /tmp/${pre}_$p $i 2>&1 | tr '\n' ' ' | cut -c1-230; echo
done; done
