#!/bin/bash
# tools/try_patch.sh <patch.diff> <tier> <Cxx> [Cyy ...]
# applies a patch to /repo's working tree, runs the given checks, and ALWAYS reverts.
patch="$(readlink -f "$1")"; tier="$2"; shift 2
cd /verif
if ! git -C /repo diff --quiet; then echo "/repo has uncommitted changes; refusing"; exit 2; fi
trap 'git -C /repo checkout -- . ; echo "[reverted]"' EXIT
git -C /repo apply "$patch" || exit 2
mkdir -p /tmp/tp_evidence
for c in "$@"; do
  cp evidence/$c.json /tmp/tp_evidence/$c.json 2>/dev/null
  ./check "$c" "$tier" 2>&1 | grep -E "^(VIOLATION|KNOWN|  signature|  what|C[0-9]+ (quick|thorough):|INFRA)" | cut -c1-400
  echo "exit=${PIPESTATUS[0]} check=$c"
  cp /tmp/tp_evidence/$c.json evidence/$c.json 2>/dev/null
done
