#!/bin/bash
# tools/wave_batch.sh <prefix> <Cxx> ... : confirm+evaluate patch1/patch2 of /tmp/<prefix>_<Cxx>, summaries in /tmp/wave/<prefix>_<Cxx>_<i>.txt
pre="$1"; shift
here="$(dirname "$(readlink -f "$0")")"; mkdir -p /tmp/wave
for p in "$@"; do for i in 1 2 3; do
  [ -f /tmp/${pre}_$p/patch$i.diff ] || continue
  $here/wave.sh /tmp/${pre}_$p $i $p x > /tmp/wave/${pre}_${p}_$i.txt 2>&1
  echo "$p $i: $(grep -c '^VIOLATION' /tmp/wave/${pre}_${p}_$i.txt) violations; $(grep -E 'demo_clean_exit|demo_patched_exit|passed|failed' /tmp/wave/${pre}_${p}_$i.txt | tr '\n' ' ' | cut -c1-200)"
done; done
