"""C04 - deleting an entity removes it, what it owns and every link to it - nothing else.

E1: from the rich / block / mini seeds, every link topology reachable by <= k
link operations, then EVERY delete (every entity of every kind, addressed by
name, id, index, negative index and object) and every unlink / metadata
clearing, and chains of two deletes.  Oracle: whole-file walk == reference
model (target, owned subtree and every link gone; everything else, including
order, unchanged), plus a raw HDF5 scan: no object with a deleted entity_id is
reachable through any link of the file.
"""
from mc import env  # noqa: F401
from mc import explorer, rawdigest, bfs, ops as O
from mc.core import R

LEVEL = "model_checking"
RULE = ("all histories [link-op]^<=k ; delete|unlink ; [delete] over the alphabet of mc/ops.py restricted to "
        "link-creating operations (link, set_meta, set_ref incl. the same array as positions and extents, create_feature, section link) followed by every delete "
        "(by name/id/index/negative index/object) and every unlink; seeds rich (k=0, chains), mini (k<=1 quick, "
        "k<=2 thorough), block (k<=1 thorough); non-trivial = last operation accepted by the model")
ASSUMPTIONS = [
    "small-scope hypothesis: link topologies with at most k additional links on top of the seed's links",
    "dimension links (array -> array) are not in the statement's list of link kinds; covered in C05",
]
LINKING = {"only": {"link", "set_meta", "set_ref", "create_feature", "set_link"}, "pred": lambda op: not (op[0] == "set_meta" and op[2] is None) and not (op[0] == "set_ref" and op[3] is None)}
LINKING_THIN = dict(LINKING, nsecs=1, narr=2, nsrc=2)
XLINKING = dict(LINKING, xblock=True, only={"set_ref"}, narr=2)
REMOVING = {"only": {"delete", "unlink", "set_meta", "set_ref"}, "delete_modes": True,
            "pred": lambda op: (op[0] != "set_meta" or op[2] is None) and (op[0] != "set_ref" or op[3] is None)}
REMOVING_NAME = dict(REMOVING, delete_modes=False)
CHUNK = 8
WALL_CAP = {"quick": 900, "thorough": 7200}


def BOUNDS(tier):
    if tier == "quick":
        return {"rich": "k=0: every delete x 5 addressing modes (features also by data name/id), every unlink; chains of 2 deletes by name on mini/light",
                "mini": "k<=1 then every removal (all addressing modes)", "block": "k<=1 (thin) then every removal by name",
                "light": "k<=1 (section links, metadata) then every removal by name",
                "xmini": "two blocks whose multi tags use arrays of the other block as positions/extents: every removal (all addressing modes), chains of 2, and k<=1 cross-block re-links then every removal",
                "states mode (E1s)": "mini: every link topology <= 2 link operations away (235 canonical states), every removal by name from each"}
    return {"rich": "k=0 all removals; chains of 2 removals by name; k=1 (thin) then removal by name",
            "mini": "k<=2 then every removal", "block": "k<=1 then every removal",
            "xmini": "as quick",
            "states mode (E1s)": "mini: link topologies <= 3 link operations away (1 642 states) x every removal in every addressing mode; block <= 2 (1 266) and light <= 3 (7 148) x every removal by name"}


def cases(tier):
    out = []

    def add(seed, hists):
        for h in hists:
            if h[-1][0] in ("delete", "unlink") or (h[-1][0] == "set_meta" and h[-1][2] is None) or \
                    (h[-1][0] == "set_ref" and h[-1][3] is None):
                out.append({"seed": seed, "ops": h})

    add("rich", explorer.enumerate_histories("rich", 1, REMOVING))
    add("mini", explorer.enumerate_histories("mini", 2, [LINKING, REMOVING]))
    add("mini", explorer.enumerate_histories("mini", 2, [REMOVING_NAME, REMOVING_NAME]))
    add("light", explorer.enumerate_histories("light", 2, [REMOVING_NAME, REMOVING_NAME]))
    add("block", explorer.enumerate_histories("block", 2, [LINKING_THIN, REMOVING_NAME]))
    add("light", explorer.enumerate_histories("light", 2, [dict(LINKING_THIN, only={"set_link", "set_meta"}), REMOVING_NAME]))
    # links that cross block boundaries (multi tag positions / extents in another block)
    add("xmini", explorer.enumerate_histories("xmini", 1, REMOVING))
    add("xmini", explorer.enumerate_histories("xmini", 2, [XLINKING, REMOVING_NAME]))
    add("xmini", explorer.enumerate_histories("xmini", 2, [REMOVING_NAME, REMOVING_NAME]))
    if tier == "thorough":
        add("rich", explorer.enumerate_histories("rich", 2, [REMOVING_NAME, REMOVING_NAME]))
        add("rich", explorer.enumerate_histories("rich", 2, [LINKING_THIN, REMOVING_NAME]))
        add("mini", explorer.enumerate_histories("mini", 3, [LINKING, LINKING, REMOVING_NAME]))
        add("block", explorer.enumerate_histories("block", 2, [LINKING, REMOVING]))
    # de-duplicate (the same history can be produced by two enumerations)
    seen, uniq = set(), []
    for c in out:
        k = repr(c)
        if k not in seen:
            seen.add(k)
            uniq.append(c)
    for h in explorer.soak_histories():
        uniq.append({"seed": "mini", "ops": h, "single": True})
        uniq.append({"seed": "mini", "ops": h, "single": True, "h": ["A"] * len(h)})      # through long-held handles
    for n in (70, 300) if tier == "quick" else (70, 130, 300, 600):
        uniq.append({"mode": "big", "n": n})
    # E1s: explicit-state BFS over link topologies (de-duplicated on the canonical state), then every removal
    if tier == "quick":
        plan = [("mini", 2, "linking", "removing-name")]
    else:
        plan = [("mini", 3, "linking", "removing"), ("block", 2, "linking-thin", "removing-name"),
                ("light", 3, "linking-thin", "removing-name")]
    for seed, depth, grow, fire in plan:
        states, stats = bfs.enumerate_states(seed, depth, CFG[grow], cache_key=grow)
        BFS_STATS["%s/%d/%s" % (seed, depth, grow)] = stats
        for st in states:
            uniq.append(dict(st, mode="expand", cfg=fire))
    return uniq


CFG = {"linking": LINKING, "linking-thin": LINKING_THIN, "removing": REMOVING, "removing-name": REMOVING_NAME}
BFS_STATS = {}


def post(r, s, m_prev, m, op, tk, prev_map):
    """raw scan: nothing with a deleted entity_id is reachable through any link"""
    if op[0] != "delete":
        return True
    ids_prev = {n["id"]["$id"] for _p, n in m_prev.entities() if "id" in n}
    ids_now = {n["id"]["$id"] for _p, n in m.entities() if "id" in n}
    gone = {prev_map.get(i, i) for i in ids_prev - ids_now}
    s.f.flush()
    present = rawdigest.entity_ids(s.f._h5file)
    r.transitions += 1
    left = sorted(g for g in gone if g in present)
    if left:
        r.viol("C04|delete.%s|%s|raw-scan|deleted-entity-still-linked" % (op[2], tk),
               "after %r an object with a deleted entity_id is still reachable at %s" % (
                   op, [present[g][:2] for g in left][:3]), {"ids": left})
        return False
    return True


def run_big(case, r):
    """subtrees and link lists that are NOT small: a source / section with several hundred children, link lists with
    dozens of members that all disappear in one delete, members at two- and three-digit positions"""
    import numpy as np
    import nixio as nix
    from mc import env as E
    n = case["n"]
    E.install_seams()
    E.reset_execution()
    path = E.fresh_path("c04big_")
    f = nix.File.open(path, nix.FileMode.Overwrite)
    try:
        b = f.create_block("blk", "t")
        keep = b.create_source("keep", "t")
        parent = b.create_source("parent", "t")
        da = b.create_data_array("sig", "t", data=np.array([1.0]))
        tag = b.create_tag("tag", "t", [0.0])
        grp = b.create_group("grp", "t")
        da.sources.append(keep)
        kids = []
        for i in range(n):
            k = parent.create_source("kid%03d" % i, "t")
            kids.append(k.id)
            if i < 5 or i % 4 == 0:
                da.sources.append(k)            # long link list: n/4 members that all go at once
            if i in (0, 1, n // 2, n - 1):
                tag.sources.append(k)
            if i % 50 == 0:
                k.create_source("deep", "t")
                grp.sources.append(k.sources["deep"])
        sec = f.create_section("root", "t")
        skeep = f.create_section("skeep", "t")
        for i in range(n):
            s_ = sec.create_section("sub%03d" % i, "t")
            s_.create_property("p", [i])
            if i in (0, 1, 63, 64, 255, 256, n - 1):
                b.create_data_array("m%03d" % i, "t", data=np.array([float(i)])).metadata = s_
        da.metadata = skeep
        # one array referenced by many tags, multi tags (also as positions / feature data) and groups
        star = b.create_data_array("star", "t", data=np.array([1.0, 2.0]))
        other = b.create_data_array("other", "t", data=np.array([3.0]))
        holders = []
        for i in range(n // 4):
            t_ = b.create_tag("t%03d" % i, "t", [0.0])
            t_.references.append(other)
            t_.references.append(star)
            if i % 3 == 0:
                t_.create_feature(star, nix.LinkType.Untagged)
            m_ = b.create_multi_tag("m%03d" % i, "t", star if i % 2 else other)
            m_.references.append(star)
            g_ = b.create_group("g%03d" % i, "t")
            g_.data_arrays.append(star)
            g_.data_arrays.append(other)
            holders.append(i)
        nlinks = len(da.sources)
        r.evals += 1
        r.nontrivial += 1
        del b.sources["parent"]
        del f.sections["root"]
        star_id = star.id
        del b.data_arrays["star"]
        for stage in ("in-session", "after-reopen"):
            b = f.blocks["blk"]
            da = b.data_arrays["sig"]
            left = [s_.name for s_ in da.sources]
            tl = [s_.name for s_ in b.tags["tag"].sources]
            gl = [s_.name for s_ in b.groups["grp"].sources]
            r.transitions += 4
            if left != ["keep"] or tl or gl:
                r.viol("C04|big|delete-source-with-%d-children|%s|links-to-deleted-sources-remain" % (n, stage),
                       "after deleting a source with %d children the array still lists %d of its %d source links (%s ...), the tag %d, the group %d" % (
                           n, len(left), nlinks, left[:4], len(tl), len(gl)), {})
                return
            metas = [(a.name, None if a.metadata is None else a.metadata.name) for a in b.data_arrays]
            if any(m_ is not None and nm != "sig" for nm, m_ in metas) or dict(metas)["sig"] != "skeep":
                r.viol("C04|big|delete-section-with-%d-children|%s|metadata-links-wrong" % (n, stage),
                       "after deleting a section with %d subsections: metadata links %r" % (n, [x for x in metas if x[1] is not None][:5]), {})
                return
            if [s_.name for s_ in b.sources] != ["keep"] or [s_.name for s_ in f.sections] != ["skeep"]:
                r.viol("C04|big|%s|wrong-survivors" % stage, "sources %r sections %r" % ([s_.name for s_ in b.sources], [s_.name for s_ in f.sections]), {})
                return
            for i in holders:
                t_, m_, g_ = b.tags["t%03d" % i], b.multi_tags["m%03d" % i], b.groups["g%03d" % i]
                refs = [[x.name for x in t_.references], [x.name for x in m_.references], [x.name for x in g_.data_arrays]]
                # a feature whose data was deleted stays (it is owned by the tag) but no longer yields the array
                feats = 0
                for ft in t_.features:
                    try:
                        d_ = ft.data
                        if d_ is not None and d_.id == star_id:
                            feats += 1
                    except Exception:
                        pass
                try:
                    posname = m_.positions.name
                except Exception:
                    posname = None
                r.transitions += 1
                if refs != [["other"], [], ["other"]] or feats != 0 or posname != (None if i % 2 else "other"):
                    r.viol("C04|big|delete-array-referenced-by-%d-holders|%s|links-remain-or-others-lost" % (3 * len(holders), stage),
                           "after deleting an array referenced by %d tags / multi tags / groups, holder %d has references %r, %d features still yielding the array, positions %r" % (
                               3 * len(holders), i, refs, feats, posname), {})
                    return
            f.flush()
            present = rawdigest.entity_ids(f._h5file)
            gone = [k for k in kids + [star_id] if k in present]
            if gone:
                r.viol("C04|big|%s|raw-scan|deleted-entity-still-linked" % stage,
                       "%d deleted sources are still reachable in the HDF5 file, e.g. at %s" % (len(gone), present[gone[0]][:2]), {})
                return
            f.close()
            f = nix.File.open(path, nix.FileMode.ReadWrite)
        r.traces = 1
    finally:
        E.safe_close(f)
        E.rm(path)


def run_case(case):
    r = R()
    if case.get("mode") == "big":
        run_big(case, r)
        return r
    if case.get("mode") == "expand":
        bfs.expand_state("C04", case, r, CFG[case["cfg"]], post=post, reopen_modes=("rw",))
        return r
    r.evals = 1
    explorer.run_history("C04", case, r, post=post)
    if not r.violations:
        r.nontrivial = 1
    return r
