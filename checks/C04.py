"""C04 - deleting an entity removes it, what it owns and every link to it - nothing else.

E1: from the rich / block / mini seeds, every link topology reachable by <= k
link operations, then EVERY delete (every entity of every kind, addressed by
name, id, index, negative index and object) and every unlink / metadata
clearing, and chains of two deletes.  Oracle: whole-file walk == reference
model (target, owned subtree and every link gone; everything else, including
order, unchanged), plus a raw HDF5 scan: no object with a deleted entity_id is
reachable through any link of the file.
"""
from mc import env  # noqa: F401
from mc import explorer, rawdigest, bfs, ops as O
from mc.core import R

LEVEL = "model_checking"
RULE = ("all histories [link-op]^<=k ; delete|unlink ; [delete] over the alphabet of mc/ops.py restricted to "
        "link-creating operations (link, set_meta, set_ref incl. the same array as positions and extents, create_feature, section link) followed by every delete "
        "(by name/id/index/negative index/object) and every unlink; seeds rich (k=0, chains), mini (k<=1 quick, "
        "k<=2 thorough), block (k<=1 thorough); non-trivial = last operation accepted by the model")
ASSUMPTIONS = [
    "small-scope hypothesis: link topologies with at most k additional links on top of the seed's links",
    "dimension links (array -> array) are not in the statement's list of link kinds; covered in C05",
]
LINKING = {"only": {"link", "set_meta", "set_ref", "create_feature", "set_link"}, "pred": lambda op: not (op[0] == "set_meta" and op[2] is None) and not (op[0] == "set_ref" and op[3] is None)}
LINKING_THIN = dict(LINKING, nsecs=1, narr=2, nsrc=2)
XLINKING = dict(LINKING, xblock=True, only={"set_ref"}, narr=2)
REMOVING = {"only": {"delete", "unlink", "set_meta", "set_ref"}, "delete_modes": True,
            "pred": lambda op: (op[0] != "set_meta" or op[2] is None) and (op[0] != "set_ref" or op[3] is None)}
REMOVING_NAME = dict(REMOVING, delete_modes=False)
CHUNK = 8
WALL_CAP = {"quick": 900, "thorough": 7200}


def BOUNDS(tier):
    if tier == "quick":
        return {"rich": "k=0: every delete x 5 addressing modes (features also by data name/id), every unlink; chains of 2 deletes by name on mini/light",
                "mini": "k<=1 then every removal (all addressing modes)", "block": "k<=1 (thin) then every removal by name",
                "light": "k<=1 (section links, metadata) then every removal by name",
                "xmini": "two blocks whose multi tags use arrays of the other block as positions/extents: every removal (all addressing modes), chains of 2, and k<=1 cross-block re-links then every removal",
                "states mode (E1s)": "mini: every link topology <= 2 link operations away (235 canonical states), every removal by name from each"}
    return {"rich": "k=0 all removals; chains of 2 removals by name; k=1 (thin) then removal by name",
            "mini": "k<=2 then every removal", "block": "k<=1 then every removal",
            "xmini": "as quick",
            "states mode (E1s)": "mini: link topologies <= 3 link operations away (1 642 states) x every removal in every addressing mode; block <= 2 (1 266) and light <= 3 (7 148) x every removal by name"}


def cases(tier):
    out = []

    def add(seed, hists):
        for h in hists:
            if h[-1][0] in ("delete", "unlink") or (h[-1][0] == "set_meta" and h[-1][2] is None) or \
                    (h[-1][0] == "set_ref" and h[-1][3] is None):
                out.append({"seed": seed, "ops": h})

    add("rich", explorer.enumerate_histories("rich", 1, REMOVING))
    add("mini", explorer.enumerate_histories("mini", 2, [LINKING, REMOVING]))
    add("mini", explorer.enumerate_histories("mini", 2, [REMOVING_NAME, REMOVING_NAME]))
    add("light", explorer.enumerate_histories("light", 2, [REMOVING_NAME, REMOVING_NAME]))
    add("block", explorer.enumerate_histories("block", 2, [LINKING_THIN, REMOVING_NAME]))
    add("light", explorer.enumerate_histories("light", 2, [dict(LINKING_THIN, only={"set_link", "set_meta"}), REMOVING_NAME]))
    # links that cross block boundaries (multi tag positions / extents in another block)
    add("xmini", explorer.enumerate_histories("xmini", 1, REMOVING))
    add("xmini", explorer.enumerate_histories("xmini", 2, [XLINKING, REMOVING_NAME]))
    add("xmini", explorer.enumerate_histories("xmini", 2, [REMOVING_NAME, REMOVING_NAME]))
    if tier == "thorough":
        add("rich", explorer.enumerate_histories("rich", 2, [REMOVING_NAME, REMOVING_NAME]))
        add("rich", explorer.enumerate_histories("rich", 2, [LINKING_THIN, REMOVING_NAME]))
        add("mini", explorer.enumerate_histories("mini", 3, [LINKING, LINKING, REMOVING_NAME]))
        add("block", explorer.enumerate_histories("block", 2, [LINKING, REMOVING]))
    # de-duplicate (the same history can be produced by two enumerations)
    seen, uniq = set(), []
    for c in out:
        k = repr(c)
        if k not in seen:
            seen.add(k)
            uniq.append(c)
    # E1s: explicit-state BFS over link topologies (de-duplicated on the canonical state), then every removal
    if tier == "quick":
        plan = [("mini", 2, "linking", "removing-name")]
    else:
        plan = [("mini", 3, "linking", "removing"), ("block", 2, "linking-thin", "removing-name"),
                ("light", 3, "linking-thin", "removing-name")]
    for seed, depth, grow, fire in plan:
        states, stats = bfs.enumerate_states(seed, depth, CFG[grow], cache_key=grow)
        BFS_STATS["%s/%d/%s" % (seed, depth, grow)] = stats
        for st in states:
            uniq.append(dict(st, mode="expand", cfg=fire))
    return uniq


CFG = {"linking": LINKING, "linking-thin": LINKING_THIN, "removing": REMOVING, "removing-name": REMOVING_NAME}
BFS_STATS = {}


def post(r, s, m_prev, m, op, tk, prev_map):
    """raw scan: nothing with a deleted entity_id is reachable through any link"""
    if op[0] != "delete":
        return True
    ids_prev = {n["id"]["$id"] for _p, n in m_prev.entities() if "id" in n}
    ids_now = {n["id"]["$id"] for _p, n in m.entities() if "id" in n}
    gone = {prev_map.get(i, i) for i in ids_prev - ids_now}
    s.f.flush()
    present = rawdigest.entity_ids(s.f._h5file)
    r.transitions += 1
    left = sorted(g for g in gone if g in present)
    if left:
        r.viol("C04|delete.%s|%s|raw-scan|deleted-entity-still-linked" % (op[2], tk),
               "after %r an object with a deleted entity_id is still reachable at %s" % (
                   op, [present[g][:2] for g in left][:3]), {"ids": left})
        return False
    return True


def run_case(case):
    r = R()
    if case.get("mode") == "expand":
        bfs.expand_state("C04", case, r, CFG[case["cfg"]], post=post, reopen_modes=("rw",))
        return r
    r.evals = 1
    explorer.run_history("C04", case, r, post=post)
    if not r.violations:
        r.nontrivial = 1
    return r
