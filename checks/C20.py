"""C20 - copies are complete, independent, and keep their internal links.

E1: every copyable kind (block, array, frame, tag, multi-tag, section,
property) taken from the rich seed x id policy x name policy x destination
(same parent, other parent in the same file, other file) x handle kind,
followed by every single mutation of a per-kind menu applied to the copy and
to the source.  Oracle: canonical walk of the copy == walk of the source
(names/ids as requested), id policy, refusal of colliding names without side
effects, and independence (the other side's walk is unchanged by a mutation).
"""
import numpy as np

from mc import env
from mc import seeds, walker, rawdigest
from mc.core import R, jhash
import h5py
import nixio as nix

LEVEL = "model_checking"
RULE = ("sources: block, arrays (plain dims / self-linked range dim / text), data frame, tag, multi-tag, root section with "
        "subtree, nested section (creation and container handle), property - all from the rich seed; x keep ids | fresh ids "
        "x {no new name, new name, colliding name} x {same parent, other parent same file, other file} x sections "
        "{recursive, non-recursive}; then every mutation of the kind's menu applied to the copy (source must be unchanged) "
        "and to the source (copy must be unchanged); non-trivial = accepted copy; distinct by construction")
ASSUMPTIONS = [
    "the copy is located in the destination by its name; the handle returned by the call is checked separately",
    "links from the copied entity to entities outside the copied subtree are compared only as far as the canonical "
    "walk shows them (kind and presence), since their ids cannot refer to 'copied' entities",
]
CHUNK = 1
WALL_CAP = {"quick": 900, "thorough": 7200}

KINDS = {
    # kind: (source getter from file, destination-container attr, create fn on the destination parent)
    "block": dict(src=lambda f: f.blocks["blk"], cont="blocks", parent_kind="file",
                  copy=lambda dest, o, keep, name: dest.create_block(name=name or "", copy_from=o, keep_copy_id=keep)),
    "array": dict(src=lambda f: f.blocks["blk"].data_arrays["sig"], cont="data_arrays", parent_kind="block",
                  copy=lambda dest, o, keep, name: dest.create_data_array(name=name or "", copy_from=o, keep_copy_id=keep)),
    "array-selflink": dict(src=lambda f: f.blocks["blk"].data_arrays["evt"], cont="data_arrays", parent_kind="block",
                           copy=lambda dest, o, keep, name: dest.create_data_array(name=name or "", copy_from=o, keep_copy_id=keep)),
    "array-big": dict(src=lambda f: f.blocks["blk"].data_arrays["bigdata"], cont="data_arrays", parent_kind="block",
                      copy=lambda dest, o, keep, name: dest.create_data_array(name=name or "", copy_from=o, keep_copy_id=keep)),
    "array-text": dict(src=lambda f: f.blocks["blk"].data_arrays["txt"], cont="data_arrays", parent_kind="block",
                       copy=lambda dest, o, keep, name: dest.create_data_array(name=name or "", copy_from=o, keep_copy_id=keep)),
    # entities WITHOUT content: an array of length 0, a table without rows, a property without values
    "array-empty": dict(src=lambda f: f.blocks["blk"].data_arrays["nodata"], cont="data_arrays", parent_kind="block",
                        copy=lambda dest, o, keep, name: dest.create_data_array(name=name or "", copy_from=o, keep_copy_id=keep)),
    "array-empty2d": dict(src=lambda f: f.blocks["blk"].data_arrays["nodata2"], cont="data_arrays", parent_kind="block",
                          copy=lambda dest, o, keep, name: dest.create_data_array(name=name or "", copy_from=o, keep_copy_id=keep)),
    "frame-empty": dict(src=lambda f: f.blocks["blk"].data_frames["norows"], cont="data_frames", parent_kind="block",
                        copy=lambda dest, o, keep, name: dest.create_data_frame(name=name or "", copy_from=o, keep_copy_id=keep)),
    "property-empty": dict(src=lambda f: f.sections["sec"].props["novalues"], cont="props", parent_kind="section",
                           copy=lambda dest, o, keep, name: dest.create_property(name=name or "", copy_from=o, keep_copy_id=keep)),
    "frame": dict(src=lambda f: f.blocks["blk"].data_frames["frame"], cont="data_frames", parent_kind="block",
                  copy=lambda dest, o, keep, name: dest.create_data_frame(name=name or "", copy_from=o, keep_copy_id=keep)),
    "tag": dict(src=lambda f: f.blocks["blk"].tags["tag"], cont="tags", parent_kind="block",
                copy=lambda dest, o, keep, name: dest.create_tag(name=name or "", copy_from=o, keep_copy_id=keep)),
    "mtag": dict(src=lambda f: f.blocks["blk"].multi_tags["mtag"], cont="multi_tags", parent_kind="block",
                 copy=lambda dest, o, keep, name: dest.create_multi_tag(name=name or "", copy_from=o, keep_copy_id=keep)),
    "section-root": dict(src=lambda f: f.sections["sec"], cont="sections", parent_kind="section-or-file",
                         copy=lambda dest, o, keep, name, children=True: dest.copy_section(o, children=children, keep_id=keep, name=name or "")),
    "section-nested": dict(src=lambda f: f.sections["sec"].sections["sec"], cont="sections", parent_kind="section-or-file",
                           copy=lambda dest, o, keep, name, children=True: dest.copy_section(o, children=children, keep_id=keep, name=name or "")),
    "section-bare-parent": dict(src=lambda f: f.sections["bare"].sections["kid"], cont="sections", parent_kind="section-or-file",
                                copy=lambda dest, o, keep, name, children=True: dest.copy_section(o, children=children, keep_id=keep, name=name or "")),
    "property": dict(src=lambda f: f.sections["sec"].props["pstr"], cont="props", parent_kind="section",
                     copy=lambda dest, o, keep, name: dest.create_property(name=name or "", copy_from=o, keep_copy_id=keep)),
}


def BOUNDS(tier):
    return {"kinds": list(KINDS), "id_policies": 2, "name_policies": 3, "destinations": 3, "section_modes": ["recursive", "non-recursive"],
            "mutations_per_kind": "menu in MUTATIONS"}


def cases(tier):
    for kind in RESTORE:
        for warm in (False, True):
            yield {"k": "restore", "kind": kind, "warm": warm}
    for kind in KINDS:
        for keep in (True, False):
            for namep in ("none", "new", "colliding"):
                for dest in ("same-parent", "other-parent", "other-file"):
                    variants = [True, False] if kind.startswith("section") else [None]
                    for children in variants:
                        handles = ["container"]
                        if kind == "section-nested":
                            handles = ["container", "creation", "via-metadata"]
                        if kind == "section-root":
                            handles = ["container", "via-metadata"]
                        for hk in handles:
                            yield {"kind": kind, "keep": keep, "name": namep, "dest": dest, "children": children, "handle": hk}


# ------------------------------------------------------------------ helpers

def subtree(e):
    return walker.walk_obj(e)


def ids_in(tree):
    out = []

    def go(t):
        if isinstance(t, dict):
            if "$id" in t and len(t) == 1 and isinstance(t["$id"], str):
                out.append(t["$id"])
            for v in t.values():
                go(v)
        elif isinstance(t, list):
            for v in t:
                go(v)
    go(tree)
    return out


def all_ids(f):
    found = rawdigest.entity_ids(f._h5file)
    return set(found)


def core_subtree(e):
    walker.CORE[0] = True
    try:
        return walker.walk_obj(e)
    finally:
        walker.CORE[0] = False


MUTATIONS = {
    "array": [
        ("label", lambda e: setattr(e, "label", "changed")),
        ("unit", lambda e: setattr(e, "unit", "kV")),
        ("definition", lambda e: setattr(e, "definition", "changed")),
        ("data-element", lambda e: e.__setitem__(tuple([0] * len(e.shape)), "q" if e.dtype == object or e.dtype.kind == "O" else 77)),
        ("append", lambda e: e.append(np.array(e[0:1]), axis=0)),
        ("dimension-label", lambda e: setattr(e.dimensions[0], "label", "changed") if len(e.dimensions) else None),
        ("append-dimension", lambda e: e.append_set_dimension(["x"])),
        ("calibration", lambda e: setattr(e, "expansion_origin", 5) if e.dtype.kind != "O" else setattr(e, "definition", "x2")),
        ("clear-metadata", lambda e: e.__delattr__("metadata")),
        ("unlink-source", lambda e: e.sources.__delitem__(0) if len(e.sources) else None),
    ],
    "frame": [
        ("definition", lambda e: setattr(e, "definition", "changed")),
        ("write-cell", lambda e: e.write_cell(99, position=[0, 0])),
        ("append-row", lambda e: e.append_rows([tuple(e[0])])),
        ("units", lambda e: setattr(e, "units", ["s"] * len(e.column_names))),
    ],
    "tag": [
        ("position", lambda e: setattr(e, "position", [9.0, 9.0])),
        ("units", lambda e: setattr(e, "units", ["s", "s"])),
        ("definition", lambda e: setattr(e, "definition", "changed")),
        ("unlink-reference", lambda e: e.references.__delitem__(0) if len(e.references) else None),
        ("feature-link-type", lambda e: setattr(e.features[0], "link_type", nix.LinkType.Indexed) if len(e.features) else None),
        ("delete-feature", lambda e: e.features.__delitem__(0) if len(e.features) else None),
        ("data-through-reference", lambda e: e.references[0].__setitem__((0, 0), 55.0) if len(e.references) else None),
        ("label-through-reference", lambda e: setattr(e.references[0], "label", "via-ref") if len(e.references) else None),
        ("clear-metadata", lambda e: e.__delattr__("metadata")),
    ],
    "mtag": [
        ("units", lambda e: setattr(e, "units", ["s", "s"])),
        ("definition", lambda e: setattr(e, "definition", "changed")),
        ("data-through-positions", lambda e: e.positions.__setitem__((0, 0), 44.0)),
        ("unlink-reference", lambda e: e.references.__delitem__(0) if len(e.references) else None),
        ("delete-feature", lambda e: e.features.__delitem__(0) if len(e.features) else None),
    ],
    "block": [
        ("definition", lambda e: setattr(e, "definition", "changed")),
        ("create-array", lambda e: e.create_data_array("brand-new", "t", data=np.array([1.0]))),
        ("delete-array", lambda e: e.data_arrays.__delitem__("feat")),
        ("array-data", lambda e: e.data_arrays["sig"].__setitem__((0, 0), 66.0)),
        ("array-label", lambda e: setattr(e.data_arrays["sig"], "label", "changed")),
        ("tag-position", lambda e: setattr(e.tags["tag"], "position", [7.0, 7.0])),
        ("group-unlink", lambda e: e.groups["grp"].data_arrays.__delitem__(0)),
        ("delete-source-subtree", lambda e: e.sources.__delitem__("src")),
        ("data-through-group-link", lambda e: e.groups["grp"].data_arrays[0].__setitem__((1, 1), 33.0)),
    ],
    "section": [
        ("repository", lambda e: setattr(e, "repository", "changed")),
        ("definition", lambda e: setattr(e, "definition", "changed")),
        ("create-property", lambda e: e.create_property("brand-new", [1])),
        ("property-values", lambda e: setattr(e.props[0], "values", list(e.props[0].values) + list(e.props[0].values)) if len(e.props) else None),
        ("delete-property", lambda e: e.props.__delitem__(0) if len(e.props) else None),
        ("nested-property-values", lambda e: setattr(e.sections[0].props[0], "values", [9.5]) if len(e.sections) and len(e.sections[0].props) else None),
        ("delete-subsection", lambda e: e.sections.__delitem__(0) if len(e.sections) else None),
        ("create-subsection", lambda e: e.create_section("brand-new", "t")),
    ],
    "property": [
        ("values", lambda e: setattr(e, "values", ["changed"])),
        ("extend", lambda e: e.extend_values(["more"])),
        ("unit", lambda e: setattr(e, "unit", "kV")),
        ("definition", lambda e: setattr(e, "definition", "changed")),
    ],
}


MUTATIONS["array-empty"] = [
    ("label", lambda e: setattr(e, "label", "changed")),
    ("unit", lambda e: setattr(e, "unit", "kV")),
    ("append", lambda e: e.append(np.zeros((2,) + tuple(e.shape[1:])), axis=0)),
    ("dimension-label", lambda e: setattr(e.dimensions[0], "label", "changed")),
    ("append-dimension", lambda e: e.append_set_dimension(["x"])),
]
MUTATIONS["frame-empty"] = [
    ("definition", lambda e: setattr(e, "definition", "changed")),
    ("append-row", lambda e: e.append_rows([(1.5, "x")])),
    ("units", lambda e: setattr(e, "units", ["s", "s"])),
]
MUTATIONS["property-empty"] = [
    ("values", lambda e: setattr(e, "values", [7])),
    ("extend", lambda e: e.extend_values([8, 9])),
    ("unit", lambda e: setattr(e, "unit", "kV")),
]


def menu(kind):
    if kind in MUTATIONS:
        return MUTATIONS[kind]
    if kind.startswith("array-empty"):
        return MUTATIONS["array-empty"]
    if kind.startswith("array"):
        return MUTATIONS["array"]
    if kind.startswith("section"):
        return MUTATIONS["section"]
    return MUTATIONS[kind]


RESTORE = {
    # kind: (home parent in file 1, parent in file 2 (created), container attribute, a sibling created up front and deleted later)
    "block": (lambda f: f, lambda g: g, "blocks", lambda par: par.create_block("scratch", "t")),
    "array": (lambda f: f.blocks["blk"], lambda g: g.create_block("dest", "t"), "data_arrays",
              lambda par: par.create_data_array("scratch", "t", data=np.array([1.0]))),
    "frame": (lambda f: f.blocks["blk"], lambda g: g.create_block("dest", "t"), "data_frames",
              lambda par: par.create_data_frame("scratch", "t", col_dict={"c": int})),
    "tag": (lambda f: f.blocks["blk"], lambda g: g.create_block("dest", "t"), "tags", lambda par: par.create_tag("scratch", "t", [0.0])),
    "mtag": (lambda f: f.blocks["blk"], lambda g: g.create_block("dest", "t"), "multi_tags",
             lambda par: par.create_multi_tag("scratch", "t", par.create_data_array("scratchpos", "t", data=np.array([1.0])))),
    "section-root": (lambda f: f, lambda g: g, "sections", lambda par: par.create_section("scratch", "t")),
    "section-nested": (lambda f: f.sections["sec"], lambda g: g.create_section("dest", "t"), "sections", lambda par: par.create_section("scratch", "t")),
    "property": (lambda f: f.sections["sec"], lambda g: g.create_section("dest", "t"), "props", lambda par: par.create_property("scratch", [1])),
}


def run_restore(case):
    """A restore history: the entity is copied into another file with its ids kept, deleted at home, copied back (ids
    kept), then an unrelated sibling is deleted, then a CHILD of the restored copy (if any), then the restored copy
    itself, and it is copied back once more.  After every step: the restored copy is complete (equal to the snapshot
    of the original), the copy in the other file is untouched, deleted things are gone and their names free."""
    r = R()
    env.install_seams()
    env.reset_execution()
    kind = case["kind"]
    K = KINDS[kind]
    home_of, away_of, cattr, mk_sibling = RESTORE[kind]
    p1, p2 = env.fresh_path("c20r_"), env.fresh_path("c20s_")
    f = nix.File.open(p1, nix.FileMode.Overwrite)
    g = nix.File.open(p2, nix.FileMode.Overwrite)
    cls = "restore|%s" % kind
    try:
        seeds.build_rich(f)
        if case.get("warm"):
            # an earlier, unrelated deletion of the same kind of container in this process / file
            w = mk_sibling(home_of(f))
            getattr(home_of(f), cattr).__delitem__(w.name)
            if kind == "mtag":
                del home_of(f).data_arrays["scratchpos"]
        home = home_of(f)
        away = away_of(g)
        sib = mk_sibling(home)
        src = K["src"](f)
        name = src.name
        snap = walker.canon(core_subtree(src))
        cp = lambda dest, o: (K["copy"](dest, o, True, None, True) if kind.startswith("section") else K["copy"](dest, o, True, None))

        def same(e, what, step):
            r.evals += 1
            got = walker.canon(core_subtree(e))
            if got != snap:
                r.viol("C20|%s|%s|%s-differs-from-original:%s" % (cls, step, what, ",".join(walker.diff_keys(snap, got)[:2])[:100]),
                       "%s after '%s' differs from the original: %s" % (what, step, "; ".join(walker.diff(snap, got, limit=3))), {})
                return False
            return True
        for rnd in range(2):
            cp(away, src) if rnd == 0 else None
            r.transitions += 1
            away_copy = getattr(away, cattr)[name]
            if not same(away_copy, "copy-in-other-file", "copy-out"):
                return r
            del getattr(home, cattr)[name]
            if name in getattr(home, cattr):
                r.viol("C20|%s|original-not-deleted" % cls, "the original is still there after its deletion (round %d)" % rnd, {})
                return r
            back = cp(home, away_copy)
            r.transitions += 2
            r.nontrivial += 1
            if name not in getattr(home, cattr) or not same(getattr(home, cattr)[name], "restored-copy", "copy-back"):
                if name not in getattr(home, cattr):
                    r.viol("C20|%s|copy-back-missing" % cls, "after copying back no entity of that name is there", {})
                return r
            # an unrelated sibling goes
            if rnd == 0:
                del getattr(home, cattr)[sib.name]
                r.transitions += 1
                if name not in getattr(home, cattr):
                    r.viol("C20|%s|restored-copy-vanished-with-unrelated-deletion" % cls,
                           "deleting the unrelated %s 'scratch' removed the restored copy" % kind, {})
                    return r
                if not same(getattr(home, cattr)[name], "restored-copy", "delete-unrelated-sibling") or not same(away_copy, "copy-in-other-file", "delete-unrelated-sibling"):
                    return r
            src = getattr(home, cattr)[name]
        # a child of the restored copy, then the restored copy itself
        e = getattr(home, cattr)[name]
        for sub in ("sections", "props", "data_arrays", "tags", "sources"):
            lst = getattr(e, sub, None)
            if lst is None or kind in ("tag", "mtag", "array") or not len(lst):
                continue
            cname = lst[0].name
            del lst[cname]
            r.transitions += 1
            r.evals += 1
            if cname in getattr(getattr(home, cattr)[name], sub):
                r.viol("C20|%s|child-of-restored-copy-cannot-be-deleted" % cls, "deleting %s[%r] of the restored copy had no effect" % (sub, cname), {})
                return r
            if not same(getattr(away, cattr)[name], "copy-in-other-file", "delete-child-of-restored-copy"):
                return r
            break
        del getattr(home, cattr)[name]
        r.transitions += 1
        r.evals += 1
        if name in getattr(home, cattr) or any(x.name == name for x in getattr(home, cattr)):
            r.viol("C20|%s|restored-copy-cannot-be-deleted" % cls, "the restored copy is still in its container after its deletion", {})
            return r
        try:
            cp(home, getattr(away, cattr)[name])
        except Exception as ex:  # noqa
            r.viol("C20|%s|name-not-free-after-deletion" % cls, "copying back after the deletion raises %s: %s" % (type(ex).__name__, str(ex)[:100]), {})
            return r
        if not same(getattr(home, cattr)[name], "restored-copy", "copy-back-again"):
            return r
        f.close()
        f = nix.File.open(p1, nix.FileMode.ReadOnly)
        if not same(getattr(home_of(f), cattr)[name], "restored-copy", "reopened"):
            return r
        r.traces += 1
        r.outcomes.add("restored:" + kind)
        return r
    except (KeyError, IndexError, RuntimeError, ValueError, AttributeError) as ex:
        # something that must be there is not (or cannot be used): the history itself contains no refused call
        r.viol("C20|%s|step-raises-%s" % (cls, type(ex).__name__), "a step of the restore history raises %s: %s" % (type(ex).__name__, str(ex)[:120]), {})
        return r
    finally:
        env.safe_close(f)
        env.safe_close(g)
        env.rm(p1)
        env.rm(p2)



def run_case(case):
    if case.get("k") == "restore":
        return run_restore(case)
    r = R()
    r.evals = 1
    kind = case["kind"]
    K = KINDS[kind]
    keep, namep, destk, children, hk = case["keep"], case["name"], case["dest"], case["children"], case["handle"]
    env.install_seams()
    env.reset_execution()
    p1 = env.fresh_path("c20a_")
    p2 = env.fresh_path("c20b_")
    f = nix.File.open(p1, nix.FileMode.Overwrite)
    f2 = None
    cls = "%s|%s|%s|%s%s" % (kind, "keep-id" if keep else "fresh-id", namep, destk,
                             "" if children is None else ("|recursive" if children else "|non-recursive"))
    if hk != "container":
        cls += "|" + hk + "-handle"
    try:
        if kind == "section-nested" and hk == "creation":
            # build the seed, then create one more nested section through a creation handle with content
            seeds.build_rich(f)
            par = f.sections["sec"]
            src = par.create_section("made", "sectype")
            src.create_property("p1", [1.5])
            src.create_section("leaf", "sectype").create_property("p2", ["x"])
        else:
            seeds.build_rich(f)
            if kind == "array-big":
                # 200 000 float64 values (1.6 MB, several chunks); the last element is not zero
                bd = f.blocks["blk"].create_data_array("bigdata", "signal", data=np.arange(200000, dtype=np.float64) + 1)
                bd.append_sampled_dimension(0.5, unit="ms")
            if kind == "array-empty":
                nd = f.blocks["blk"].create_data_array("nodata", "signal", dtype=nix.DataType.Double, shape=(0,), unit="mV", label="nothing yet")
                nd.append_sampled_dimension(0.5, unit="ms")
            if kind == "array-empty2d":
                nd = f.blocks["blk"].create_data_array("nodata2", "signal", data=np.zeros((0, 3)), unit="mV")
                nd.append_sampled_dimension(0.5, unit="ms")
                nd.append_set_dimension(["a", "b", "c"])
            if kind == "frame-empty":
                nr = f.blocks["blk"].create_data_frame("norows", "table", col_dict=dict([("t", np.float64), ("n", str)]))
                nr.units = ["ms", None]
            if kind == "property-empty":
                f.sections["sec"].create_property("novalues", nix.DataType.Int64).unit = "mV"
            if kind == "section-bare-parent":
                kid = f.create_section("bare", "sectype").create_section("kid", "sectype")      # the parent has no properties
                kid.create_property("kp", [2.5])
                kid.create_section("leaf", "sectype").create_property("lp", ["x"])
            src = K["src"](f)
            if hk == "via-metadata":
                # the same section, reached through the metadata link of an entity (such a handle has no container parent)
                src = f.blocks["blk"].metadata if kind == "section-root" else f.blocks["blk"].data_arrays["sig"].metadata
                if src is None or src.id != K["src"](f).id:
                    raise AssertionError("seed changed: metadata links do not lead to the expected sections")
        # entities that are called like the HDF5 dataset of an array ("data"), inside everything that gets copied
        if not (kind == "section-nested" and hk == "creation"):
            blk_ = f.blocks["blk"]
            if "data" not in blk_.data_arrays:
                dnamed = blk_.create_data_array("data", "signal", data=np.array([4.0, 5.0]))
                dnamed.append_sampled_dimension(1.0)
                blk_.tags["tag"].references.append(dnamed)
                blk_.multi_tags["mtag"].references.append(dnamed)
                blk_.groups["grp"].data_arrays.append(dnamed)
                f.sections["sec"].create_property("data", [7, 8])
                f.sections["sec"].create_section("data", "sectype").create_property("data", ["d"])
                f.sections["sec"].sections["sec"].create_section("data", "sectype")
                # chains that are NOT shallow: nine levels of sections below sec and below sec/sec, nine levels of sources in blk
                for top in (f.sections["sec"], f.sections["sec"].sections["sec"]):
                    p_ = top
                    for lvl in range(9):
                        p_ = p_.create_section("deep%d" % lvl, "sectype")
                        p_.create_property("dp", [lvl])
                p_ = blk_.create_source("deepsrc", "sourcetype")
                for lvl in range(9):
                    p_ = p_.create_source("deep%d" % lvl, "sourcetype")
                blk_.data_arrays["sig"].sources.append(p_)
        srcname = src.name
        # ---- destination parent
        destfile = f
        if destk == "other-file":
            f2 = nix.File.open(p2, nix.FileMode.Overwrite, **({"compression": nix.Compression.DeflateNormal} if kind == "array-big" else {}))
            destfile = f2
        pk = K["parent_kind"]
        if pk == "file":
            if destk == "other-parent":
                return r        # a block has only files as parents
            dest = destfile
            if destk == "other-file" and namep == "colliding":
                destfile.create_block(srcname, "t")
        elif pk == "block":
            if destk == "same-parent":
                dest = f.blocks["blk"]
            else:
                dest = destfile.create_block("dest", "t", **({"compression": nix.Compression.DeflateNormal} if kind == "array-big" else {}))
                if namep == "colliding":
                    # something of that name already lives in the destination
                    if kind.startswith("array"):
                        dest.create_data_array("taken", "t", data=np.array([1.0]))
                    elif kind.startswith("frame"):
                        dest.create_data_frame("taken", "t", col_dict={"c": int})
                    elif kind == "tag":
                        dest.create_tag("taken", "t", [0.0])
                    else:
                        dest.create_multi_tag("taken", "t", dest.create_data_array("takenpos", "t", data=np.array([1.0])))
        elif pk == "section":
            if destk == "same-parent":
                dest = f.sections["sec"]
            else:
                dest = destfile.create_section("dest", "t")
                if namep == "colliding":
                    dest.create_property("taken", [1])
        else:   # section-or-file
            if destk == "same-parent":
                dest = f if kind == "section-root" else (f.sections["bare"] if kind == "section-bare-parent" else f.sections["sec"])
            elif destk == "other-parent":
                dest = f.create_section("dest", "t")
            else:
                dest = destfile
            if namep == "colliding" and destk != "same-parent":
                (dest.create_section("taken", "t"))
        # ---- name policy
        if namep == "none":
            newname = None
            expect_collision = destk == "same-parent"
            final = srcname
        elif namep == "new":
            newname = "the-copy"
            expect_collision = False
            final = newname
        else:
            if destk == "same-parent":
                return r        # 'none' already collides in the same parent
            newname = "taken" if not (pk == "file") else srcname
            expect_collision = True
            final = newname
        before_src = core_subtree(src)
        before_ids = all_ids(f) | (all_ids(f2) if f2 else set())
        dest_walk_before = walker.walk(destfile, core=True)
        cont = getattr(dest, K["cont"])
        try:
            if children is None:
                ret = K["copy"](dest, src, keep, newname)
            else:
                ret = K["copy"](dest, src, keep, newname, children)
            exc = None
        except Exception as e:  # noqa
            ret, exc = None, e
        r.transitions += 1
        if expect_collision:
            r.outcomes.add("collision:" + (type(exc).__name__ if exc else "accepted"))
            if exc is None:
                r.viol("C20|%s|colliding-name-accepted" % cls, "copying %s onto an existing name %r was accepted" % (kind, final), {})
                return r
            if not isinstance(exc, (NameError, nix.exceptions.DuplicateName)):
                r.viol("C20|%s|colliding-name-raises-%s" % (cls, type(exc).__name__),
                       "copying %s onto an existing name raises %s instead of a name error" % (kind, type(exc).__name__), {})
            after = walker.walk(destfile, core=True)
            if after != dest_walk_before:
                r.viol("C20|%s|refused-copy-has-side-effects" % cls,
                       "refused copy of %s changed the destination: %s" % (kind, "; ".join(walker.diff(dest_walk_before, after, limit=3))), {})
            return r
        if exc is not None:
            r.outcomes.add("copy-raises:" + type(exc).__name__)
            r.viol("C20|%s|copy-raises-%s" % (cls, type(exc).__name__),
                   "copying %s (%s) raises %s: %s" % (kind, cls, type(exc).__name__, str(exc)[:160]), {})
            return r
        r.nontrivial = 1
        r.outcomes.add("copied")
        # ---- locate the copy by name
        try:
            matches = [e for e in cont if e.name == final]
            if kind != "block" and destk == "same-parent" and final == srcname:
                matches = []
            copy = matches[-1] if matches else None
        except Exception:
            copy = None
        if copy is None:
            r.viol("C20|%s|copy-not-found-under-requested-name" % cls, "after copying %s no entity named %r is in the destination" % (kind, final), {})
            return r
        # returned handle
        try:
            same_obj = ret is not None and ret.name == final and (ret.id == copy.id)
            if same_obj and keep and destk == "same-parent":
                # ids are equal by request; distinguish by the HDF5 object
                same_obj = ret._h5group.h5obj.id == copy._h5group.h5obj.id
        except Exception:
            same_obj = False
        if not same_obj:
            r.viol("C20|%s|returned-handle-is-not-the-copy" % cls,
                   "the handle returned by the copy call is %r, the copy is named %r" % (getattr(ret, "name", ret), final), {})
        # ---- completeness
        src_t = core_subtree(src)
        cp_t = core_subtree(copy)
        a = walker.canon(src_t)
        b = walker.canon(cp_t)
        if newname is not None:
            a.pop("name", None)
            b.pop("name", None)
        if children is False:
            a["sections"] = []
        if a != b:
            keys = walker.diff_keys(a, b)
            r.viol("C20|%s|copy-differs-from-source:%s" % (cls, ",".join(keys[:2])[:120]),
                   "copy of %s differs from its source: %s" % (kind, "; ".join(walker.diff(a, b, limit=4))), {})
            return r
        # ---- id policy
        sids, cids = ids_in(src_t if children is not False else dict(src_t, sections=[])), ids_in(cp_t)
        own = lambda t: [t["id"]["$id"]] + [x["id"]["$id"] for k in ("data_arrays", "data_frames", "tags", "multi_tags", "groups", "sources", "sections", "props", "features")
                                            for x in (t.get(k) or []) if isinstance(x, dict) and isinstance(x.get("id"), dict)]
        if keep:
            if own(src_t if children is not False else dict(src_t, sections=[])) != own(cp_t):
                r.viol("C20|%s|ids-not-kept" % cls, "keep_id was requested but the ids of the copy differ from the source", {})
        else:
            # every entity id stored anywhere inside the copy (children at any depth, embedded link targets such as
            # feature data, references, sources, metadata, dimension links): HDF5-level scan of the copy's subtree
            inside = rawdigest.entity_ids(copy._h5group.h5obj) if isinstance(copy._h5group.h5obj, h5py.Group) else {}
            stale = sorted(i for i in inside if i in before_ids)
            if stale:
                r.viol("C20|%s|ids-not-fresh|inside-the-copy" % cls,
                       "fresh ids were requested but %d id(s) stored inside the copy existed before, e.g. at %s" % (
                           len(stale), [inside[i][0] for i in stale[:3]]), {})
            new_ids = own(cp_t)
            if any(i in before_ids for i in new_ids):
                r.viol("C20|%s|ids-not-fresh" % cls, "fresh ids were requested but the copy carries an id that existed before: %r" % (
                    [i for i in new_ids if i in before_ids][:3],), {})
            if len(set(new_ids)) != len(new_ids):
                r.viol("C20|%s|fresh-ids-not-unique" % cls, "fresh ids of the copy are not unique", {})
        if src_t != before_src:
            r.viol("C20|%s|source-changed-by-copy" % cls, "the source changed while being copied: %s" % "; ".join(walker.diff(before_src, src_t, limit=3)), {})
            return r
        # ---- links among the copied entities point to the copied entities (aliasing inside the copy)
        if kind == "block":
            r.transitions += 1
            copy.data_arrays["sig"].label = "inside-copy"
            copy.data_arrays["apos"][0, 0] = 123.0
            views = {"group": copy.groups["grp"].data_arrays["sig"].label, "tag-reference": copy.tags["tag"].references[0].label,
                     "mtag-reference": copy.multi_tags["mtag"].references[0].label,
                     "mtag-positions": float(np.asarray(copy.multi_tags["mtag"].positions[0, 0]).ravel()[0]),
                     "feature-data": None}
            copy.data_arrays["feat"].label = "feat-inside-copy"
            views["feature-data"] = copy.tags["tag"].features[0].data.label
            exp = {"group": "inside-copy", "tag-reference": "inside-copy", "mtag-reference": "inside-copy", "mtag-positions": 123.0,
                   "feature-data": "feat-inside-copy"}
            for k_, v_ in exp.items():
                if views[k_] != v_:
                    r.viol("C20|%s|internal-link-not-to-the-copy|%s" % (cls, k_),
                           "in the copied block the %s link does not lead to the copied entity (reads %r after changing the copy's array to %r)" % (
                               k_, views[k_], v_), {})
                    return r
            if src.data_arrays["sig"].label == "inside-copy" or float(np.asarray(src.data_arrays["apos"][0, 0]).ravel()[0]) == 123.0:
                r.viol("C20|%s|change-of-copy-visible-in-source|array" % cls, "changing an array of the copied block changed the source block", {})
                return r
        # ---- a copy OF THE COPY after the copy was changed
        try:
            copy.definition = "the-copy-was-changed"
        except Exception:
            pass
        # the copy has been mutated and now differs from its source: a copy OF THE COPY (same destination,
        # same id policy) must reproduce the copy as it is now, not the original
        r.transitions += 1
        try:
            if children is None:
                second = K["copy"](dest, copy, keep, "second-copy")
            else:
                second = K["copy"](dest, copy, keep, "second-copy", children)
            sexc = None
        except Exception as e:  # noqa
            second, sexc = None, e
        if sexc is not None:
            r.viol("C20|%s|copy-of-the-copy-raises-%s" % (cls, type(sexc).__name__),
                   "copying the (mutated) copy of %s again raises %s: %s" % (kind, type(sexc).__name__, str(sexc)[:120]), {})
            return r
        try:
            second = [e for e in getattr(dest, K["cont"]) if e.name == "second-copy"][-1]
        except Exception:
            second = None
        if second is None:
            r.viol("C20|%s|copy-of-the-copy-not-found" % cls, "the copy of the copy is not in the destination", {})
            return r
        a2 = walker.canon(core_subtree(copy))
        b2 = walker.canon(core_subtree(second))
        a2.pop("name", None)
        b2.pop("name", None)
        if children is False:
            a2["sections"] = []
        if a2 != b2:
            keys = walker.diff_keys(a2, b2)
            r.viol("C20|%s|copy-of-the-copy-differs:%s" % (cls, ",".join(keys[:2])[:100]),
                   "a copy of the mutated copy of %s differs from it: %s" % (kind, "; ".join(walker.diff(a2, b2, limit=4))), {})
            return r
        # ---- a THIRD copy, made from the second one after that was changed too
        try:
            second.definition = "the-second-copy-was-changed"
            if children is None:
                K["copy"](dest, second, keep, "third-copy")
            else:
                K["copy"](dest, second, keep, "third-copy", children)
            third = [e for e in getattr(dest, K["cont"]) if e.name == "third-copy"][-1]
            a3 = walker.canon(core_subtree(second))
            b3 = walker.canon(core_subtree(third))
            a3.pop("name", None)
            b3.pop("name", None)
            if children is False:
                a3["sections"] = []
            r.transitions += 1
            if a3 != b3:
                keys = walker.diff_keys(a3, b3)
                r.viol("C20|%s|third-copy-differs:%s" % (cls, ",".join(keys[:2])[:100]),
                       "a copy of the changed second copy of %s differs from it: %s" % (kind, "; ".join(walker.diff(a3, b3, limit=4))), {})
                return r
            if walker.canon(core_subtree(copy)).get("definition") != "the-copy-was-changed":
                r.viol("C20|%s|changing-the-second-copy-changed-the-first" % cls, "the first copy lost its own definition after the second copy was changed", {})
                return r
        except Exception as e:  # noqa
            r.viol("C20|%s|third-copy-raises-%s" % (cls, type(e).__name__), "making a third copy of %s raises %s: %s" % (kind, type(e).__name__, str(e)[:120]), {})
            return r
        # ---- independence: every mutation of the menu on the copy, then on the source
        for side, target, other in (("copy", copy, src), ("source", src, copy)):
            for mname, mfn in menu(kind):
                ob = core_subtree(other)
                try:
                    mfn(target)
                except Exception as e:  # noqa
                    r.outcomes.add("mutation-raises")
                    r.bump("mutation_raised[%s:%s]" % (kind, mname))
                    continue
                r.transitions += 1
                oa = core_subtree(other)
                if oa != ob:
                    keys = walker.diff_keys(ob, oa)
                    if keep and destfile is f and mname.startswith("delete"):
                        # one root cause (deletion is by id, file-wide, and a keep-id copy in the same file shares
                        # its ids with the source): coarse signature
                        r.viol("C20|keep-id-copy-in-the-same-file|delete-by-id-removes-both-sides",
                               "%s: %r on the %s also removed the entity from the %s (ids are shared inside one file)" % (
                                   cls, mname, side, "source" if side == "copy" else "copy"), {})
                        return r
                    r.viol("C20|%s|mutating-%s-changes-the-other-side|%s" % (cls, side, mname),
                           "mutation %r of the %s is visible in the %s: %s" % (mname, side, "source" if side == "copy" else "copy",
                                                                           "; ".join(walker.diff(ob, oa, limit=3))), {})
                    return r
        r.traces = 1
        r.states.add(jhash(cls))
        return r
    finally:
        env.safe_close(f)
        if f2 is not None:
            env.safe_close(f2)
        env.rm(p1)
        env.rm(p2)
