"""C02 - closing and reopening a file reproduces the complete observable state.

E1 (sequences mode): all histories up to the depth bound from several seed
states; after every step the real file is compared with the reference model
(last write wins, deleted stays deleted), every cached handle (two handle sets
A and B, used alternately) is compared with a fresh handle, and at the end of
every history the complete introspective walk is compared before close /
after reopen read-only / after reopen read-write.  REOPEN(ro|rw) is also an
operation of the alphabet, so a close+reopen is inserted at every point.
"""
from mc import env  # noqa: F401
from mc import explorer, walker, bfs, ops as O
from mc.core import R

LEVEL = "model_checking"
RULE = ("all operation histories of length <= d over the alphabet of mc/ops.py (create / set attribute / "
        "link / unlink / metadata / positions+extents / feature / dimension / write / property values / "
        "delete / REOPEN) from the seeds rich (d=1, full alphabet), mini (d=2..3) and empty (d=3..4); "
        "state = canonical primary walk (ids renamed by first occurrence); a history is non-trivial if "
        "its last operation is not refused by the model; distinct by construction")
ASSUMPTIONS = [
    "histories from the empty seed and the one-operation histories from mini / xmini run while a second file built from the "
    "same seed is open in the same process; it must read unchanged afterwards",
    "small-scope hypothesis: 1-2 names per kind, value alphabets of 2-4 values per attribute",
    "ids and clock are made deterministic through module-attribute seams (mc/env.py)",
    "histories whose earlier step already disagreed with the model are not extended (counted as pruned)",
    "re-appending an already linked entity to a link list is not in the alphabet (order unspecified)",
]
THIN = {"thin": True, "names": ["sig"], "nsecs": 1, "narr": 1, "nsrc": 1}
THIN_NODEL = dict(THIN)
CHUNK = 8
WALL_CAP = {"quick": 1500, "thorough": 10800}


def BOUNDS(tier):
    if tier == "quick":
        return {"rich": {"depth": 1, "alphabet": "full"}, "mini": {"depth": 2, "alphabet": "thin"},
                "empty": {"depth": 3, "alphabet": "full"}, "handles": ["ABAB"],
                "xmini": "depth 1, thin alphabet incl. cross-block positions/extents links and every delete addressing mode",
                "states mode (E1s, de-duplicated BFS)": "mini: every state <= 1 thin operation away, every thin operation fired from a byte copy in a fresh session (depth 2 without the same-entity reduction)",
                "two-handle histories": "mini, depth exactly 3, link/unlink/metadata/definition on one entity (group, tag), patterns ABA and AAB"}
    return {"rich": {"depth": 1, "alphabet": "full"}, "mini": {"depth": 2, "alphabet": "full"},
            
            "empty": {"depth": 4, "alphabet": "full"}, "handles": ["ABAB", "fresh"],
            "states mode (E1s, de-duplicated BFS)": {"mini": "canonical states <= 2 thin operations away (level 2: those reached by structural operations only), every thin operation from each: depth 3",
                                                     "empty": "all canonical states <= 3 operations away, every operation from each: depth 4 (depth 5 = 11 911 states was measured but does not fit the time budget together with the un-merged depth-4 histories)"}}


def handle_cfg(ent):
    """link / unlink / one attribute on a single entity: the alphabet for the two-handle histories"""
    return {"thin": True, "names": ["sig"], "nsecs": 1, "narr": 2, "nsrc": 2,
            "only": {"link", "unlink", "set", "set_meta"},
            "pred": lambda op: op[1] == ent and (op[0] != "set" or (op[2] == "definition" and op[3] is not None))}


def cases(tier):
    out = []

    def add(seed, hists, patterns):
        for h in hists:
            for pat in patterns:
                hs = None if pat == "fresh" else [pat[i % len(pat)] for i in range(len(h))]
                c = {"seed": seed, "ops": h, "h": hs}
                if seed == "empty" or (seed in ("mini", "xmini") and len(h) == 1):
                    c["twin"] = True       # a second file with the same content stays open in the process
                out.append(c)

    if tier == "quick":
        add("rich", explorer.enumerate_histories("rich", 1, {"delete_modes": True}), ["AB"])
        add("mini", explorer.enumerate_histories("mini", 2, THIN, follow=explorer.same_entity_or_reopen), ["AB"])
        add("empty", explorer.enumerate_histories("empty", 3, {}), ["AB"])
        add("xmini", explorer.enumerate_histories("xmini", 1, {"delete_modes": True, "xblock": True, "thin": True}), ["AB"])
        for ent in (["blocks", "blk", "groups", "grp"], ["blocks", "blk", "tags", "tag"]):
            add("mini", [h for h in explorer.enumerate_histories("mini", 3, handle_cfg(ent)) if len(h) == 3], ["AB", "AAB", "ABB"])
    else:
        add("rich", explorer.enumerate_histories("rich", 1, {"delete_modes": True}), ["AB", "fresh"])
        add("mini", explorer.enumerate_histories("mini", 2, {"delete_modes": True}), ["AB"])
        add("empty", explorer.enumerate_histories("empty", 4, {}), ["AB"])
        add("xmini", explorer.enumerate_histories("xmini", 1, {"delete_modes": True, "xblock": True}), ["AB"])
        add("xmini", explorer.enumerate_histories("xmini", 2, {"xblock": True, "thin": True, "only": {"set_ref", "delete", "reopen", "unlink"}}), ["AB"])
        for ent in (["blocks", "blk", "groups", "grp"], ["blocks", "blk", "tags", "tag"], ["blocks", "blk", "data_arrays", "sig"]):
            add("mini", [h for h in explorer.enumerate_histories("mini", 3, handle_cfg(ent)) if len(h) == 3], ["AB", "AAB", "ABB"])
    # long histories (36-49 operations): deleted entities re-created under the same name and linked again, link lists
    # emptied and refilled, reopen in between; the reference model is compared after every step
    for h in explorer.soak_histories():
        for hs in (None, ["A"], ["A", "B"], ["A", "A", "B"]):
            out.append({"seed": "mini", "ops": h, "h": None if hs is None else [hs[i % len(hs)] for i in range(len(h))], "single": True})
    ops2, hs2 = explorer.soak_two_handles()
    out.append({"seed": "mini", "ops": ops2, "h": hs2, "single": True})
    out.append({"mode": "dims11"})        # an array of rank 11: descriptors 1..11 in order, also after reopening
    # E1s: explicit-state BFS with de-duplication on the canonical state (mc/bfs.py)
    if tier == "quick":
        plan = [("mini", 1, "thin")]
    else:
        plan = [("mini", 2, "thin"), ("empty", 3, "full")]
    STRUCT = {"create", "delete", "link", "unlink", "set_ref", "set_meta", "create_feature", "append_dim", "set_link", "write", "pvalues"}
    for seed, depth, cname in plan:
        states, stats = bfs.enumerate_states(seed, depth, BFS_CFG[cname], cache_key=cname)
        BFS_STATS["%s/%d/%s" % (seed, depth, cname)] = stats
        kept = 0
        for st in states:
            # thorough, mini, level 2: only states reached by two structural operations are expanded (attribute
            # values do not change which operations are enabled or how they behave); levels 0-1 are expanded fully
            if tier != "quick" and seed == "mini" and st["level"] == 2 and not all(op[0] in STRUCT for op in st["prefix"]):
                continue
            kept += 1
            out.append(dict(st, mode="expand", cfg=cname))
        stats["states_expanded"] = kept
    return out


BFS_CFG = {"thin": THIN, "full": {}}
BFS_STATS = {}


def run_case(case):
    r = R()
    if case.get("mode") == "dims11":
        from checks import C03
        r.evals = 1
        C03.run_dims11(r, prop="C02")
        return r
    if case.get("mode") == "expand":
        bfs.expand_state("C02", case, r, BFS_CFG[case["cfg"]])
        return r
    r.evals = 1
    explorer.run_history("C02", case, r, check_handles=True)
    if not r.violations:
        r.nontrivial = 1
    return r
