"""C13 - tree searches, parents and 'referring' lists reflect the stored structure.

E2 over enumerated structures: every ordered rooted forest with <= n nodes
whose sibling names are distinct but repeat across subtrees and levels, built
as a section tree and as a source tree; every depth limit, filter and handle
kind.  Plus the complete cube of metadata-link assignments and source-list
memberships for the referring lists.
"""
import itertools

import numpy as np

from mc import env
from mc.core import R
import nixio as nix

LEVEL = "exploration"
RULE = ("every ordered rooted forest with <= 4 (thorough: 5) nodes, node names from {a,b,c}, siblings distinct (names "
        "repeat across subtrees and levels), as metadata tree and as source tree; find_* from File/Block and from every "
        "node with limit in {None, 0..depth+1} x filters {all, name=='a', none, id of every node}; parent / "
        "parent_source / parent_block of every node through creation, container-lookup, search-result and link handles "
        "and after reopen; referring lists: all 3^6 metadata assignments from {block, group, array, tag, multi-tag, "
        "source} (plus a nested source) to 2 sections and all 4^3 source-list memberships, with removals; "
        "non-trivial = query on a forest with at least two nodes; distinct by construction")
ASSUMPTIONS = [
    "find_*(limit=0) on a File/Block may return [] or the roots (roots are at depth 1, a starting node at depth 0)",
    "forests are bounded by node count; names by a 3-letter alphabet",
]
CHUNK = 4
NAMES = ["a", "b", "c"]


# ------------------------------------------------------------------ forests

def forests(n, cache={}):
    """all ordered forests with exactly n nodes; forest = tuple of (name, subforest); sibling names distinct"""
    if n in cache:
        return cache[n]
    if n == 0:
        out = [()]
    else:
        out = []
        # first tree takes k nodes (root + k-1 below), rest forest takes n-k
        for k in range(1, n + 1):
            for sub in forests(k - 1):
                for rest in forests(n - k):
                    used = {t[0] for t in rest}
                    for nm in NAMES:
                        if nm not in used:
                            out.append(((nm, sub),) + rest)
    cache[n] = out
    return out


def all_forests(maxn):
    out = []
    for n in range(1, maxn + 1):
        out += forests(n)
    return out


def enc_forest(f):
    return [[nm, enc_forest(sub)] for nm, sub in f]


def BOUNDS(tier):
    n = 4 if tier == "quick" else 5
    return {"max_nodes": n, "forests": len(all_forests(n)), "metadata_assignments": 3 ** 6, "source_memberships": 4 ** 3}


def cases(tier):
    n = 4 if tier == "quick" else 5
    for f in all_forests(n):
        yield {"k": "forest", "forest": enc_forest(f)}
    for first in range(3):
        for second in range(3):
            yield {"k": "refmeta", "first": first, "second": second}
    yield {"k": "refsrc"}
    yield {"k": "bigtree", "w1": 40, "w2": 27}            # 1 121 nodes
    if tier == "thorough":
        yield {"k": "bigtree", "w1": 70, "w2": 35}        # 2 521 nodes
    for depth in (9,) if tier == "quick" else (6, 9, 14):
        yield {"k": "deepchain", "depth": depth}


# ------------------------------------------------------------------ model of a forest

class Node:
    def __init__(self, name, parent, depth):
        self.name, self.parent, self.depth = name, parent, depth
        self.children = []
        self.path = (parent.path if parent else ()) + (name,)


def build_model(forest):
    roots = []
    allnodes = []

    def go(f, parent, depth):
        lst = []
        for nm, sub in f:
            nd = Node(nm, parent, depth)
            lst.append(nd)
            allnodes.append(nd)
            nd.children = go(sub, nd, depth + 1)
        return lst
    roots = go(forest, None, 1)
    return roots, allnodes


def bfs(start_nodes, base_depth, limit):
    """nodes in breadth-first order with (relative) depth <= limit; start nodes always included"""
    out = []
    queue = [(n, base_depth) for n in start_nodes]
    while queue:
        n, d = queue.pop(0)
        out.append(n)
        if limit is None or d + 1 <= limit:
            queue += [(c, d + 1) for c in n.children]
    return out


def height(nodes):
    return max([n.depth for n in nodes] or [0])


# ------------------------------------------------------------------ forest scenario

def run_forest(case, r):
    forest = case["forest"]
    roots, nodes = build_model(forest)
    env.install_seams()
    env.reset_execution()
    path = env.fresh_path("c13_")
    f = nix.File.open(path, nix.FileMode.Overwrite)
    try:
        other = f.create_block("other", "t")
        osrc = other.create_source("a", "t")       # same names in another block
        osrc.create_source("a", "t")
        sec_h, src_h = {}, {}                      # creation handles by path
        ids_sec, ids_src = {}, {}

        def build():
            blk = f.create_block("blk", "t")

            def mk(lst, sparent, rparent):
                for nd in lst:
                    sec_h[nd.path] = sparent.create_section(nd.name, "t")
                    src_h[nd.path] = rparent.create_source(nd.name, "t")
                    mk(nd.children, sec_h[nd.path], src_h[nd.path])
            mk(roots, f, blk)
            da = blk.create_data_array("d", "t", data=np.array([1.0]))
            for nd in nodes:
                da.sources.append(src_h[nd.path])
                src_h[nd.path].metadata = sec_h[nd.path]       # source a/b refers to section a/b as metadata
            ids_sec.update({nd.path: sec_h[nd.path].id for nd in nodes})
            ids_src.update({nd.path: src_h[nd.path].id for nd in nodes})
        build()
        H = height(nodes)
        sizecls = "n%d" % len(nodes)

        def check_find(kind, label, fn, start_nodes, base_depth, idmap, lenient0):
            for limit in [None] + list(range(0, H + 2)):
                exp_all = bfs(start_nodes, base_depth, limit)
                filters = [("all", lambda e: True, lambda n: True), ("name-a", lambda e: e.name == "a", lambda n: n.name == "a"),
                           ("none", lambda e: False, lambda n: False)]
                for nd in nodes:
                    filters.append(("by-id", (lambda i: (lambda e: e.id == i))(idmap[nd.path]), (lambda p: (lambda n: n.path == p))(nd.path)))
                for fname, filt, mfilt in filters:
                    r.evals += 1
                    if len(nodes) > 1:
                        r.nontrivial += 1
                    exp = [idmap[n.path] for n in exp_all if mfilt(n)]
                    try:
                        if limit is None:
                            got = [e.id for e in fn(filtr=filt)]
                        else:
                            got = [e.id for e in fn(filtr=filt, limit=limit)]
                    except Exception as e:  # noqa
                        r.viol("C13|%s|%s|raises-%s" % (kind, label, type(e).__name__),
                               "%s from %s limit=%r raises %s" % (kind, label, limit, type(e).__name__), {})
                        return
                    if got == exp:
                        continue
                    if limit == 0 and lenient0 and got == []:
                        continue
                    if sorted(got) == sorted(exp):
                        cls = "wrong-order"
                    elif len(set(got)) != len(got):
                        cls = "duplicates"
                    elif set(got) < set(exp):
                        cls = "missing"
                    elif set(got) > set(exp):
                        cls = "surplus"
                    else:
                        cls = "wrong-set"
                    names = {v: "/".join(k) for k, v in idmap.items()}
                    r.viol("C13|%s|%s|limit-%s|%s|%s" % (kind, label, "none" if limit is None else ("0" if limit == 0 else "n"), fname, cls),
                           "%s from %s (limit=%r, filter=%s) on forest %r returns %r, expected %r" % (
                               kind, label, limit, fname, forest, [names.get(i, i) for i in got], [names.get(i, i) for i in exp]), {})
                    return

        def handles(stage, ff):
            """(label, section handle dict, source handle dict) for every handle kind"""
            b = ff.blocks["blk"]
            out = []
            if stage != "reopened":
                out.append(("creation", sec_h, src_h))
            cont_sec, cont_src = {}, {}
            for nd in nodes:
                s_, q_ = ff, b
                for nm in nd.path:
                    s_ = s_.sections[nm]
                    q_ = q_.sources[nm]
                cont_sec[nd.path], cont_src[nd.path] = s_, q_
            out.append(("container", cont_sec, cont_src))
            found_sec = {}
            for e in ff.find_sections():
                for p_, i in ids_sec.items():
                    if i == e.id:
                        found_sec[p_] = e
            found_src = {}
            for e in b.find_sources():
                for p_, i in ids_src.items():
                    if i == e.id:
                        found_src[p_] = e
            out.append(("search-result", found_sec, found_src))
            link_src = {}
            d_ = b.data_arrays["d"]
            for p_, i in ids_src.items():
                link_src[p_] = d_.sources[i]
            out.append(("link-list", {}, link_src))
            # sections reached through a metadata link of a source with the same path
            meta_sec = {}
            for nd in nodes:
                try:
                    m_ = cont_src[nd.path].metadata
                except Exception:
                    m_ = None
                if m_ is not None:
                    meta_sec[nd.path] = m_
            out.append(("metadata-link", meta_sec, {}))
            return out

        def check_all(stage, ff):
            b = ff.blocks["blk"]
            # searches
            check_find("find_sections", "File", ff.find_sections, roots, 1, ids_sec, True)
            check_find("find_sources", "Block", b.find_sources, roots, 1, ids_src, True)
            for label, hs, hq in handles(stage, ff):
                for nd in nodes:
                    if nd.path in hs:
                        if label == "container":
                            check_find("find_sections", "Section", hs[nd.path].find_sections, [nd], 0, ids_sec, False)
                        # parent
                        r.evals += 1
                        r.nontrivial += 1
                        try:
                            par = hs[nd.path].parent
                            got = None if par is None else par.id
                        except Exception as e:  # noqa
                            got = "raises-" + type(e).__name__
                        exp = None if nd.parent is None else ids_sec[nd.parent.path]
                        r.outcomes.add("section.parent:%s:%s" % (label, "none" if exp is None else "some"))
                        if got != exp:
                            r.viol("C13|Section.parent|%s|%s|%s|%s" % (label, stage, "root" if nd.parent is None else "nested",
                                                                         "none" if got is None else "wrong-or-error"),
                                   "Section.parent of %s via %s handle (%s) on forest %r is %r, expected %r" % (
                                       "/".join(nd.path), label, stage, forest, got, exp), {})
                    if nd.path in hq:
                        if label == "container":
                            check_find("find_sources", "Source", hq[nd.path].find_sources, [nd], 0, ids_src, False)
                        for attr, exp in (("parent_source", None if nd.parent is None else ids_src[nd.parent.path]),
                                          ("parent_block", b.id)):
                            r.evals += 1
                            r.nontrivial += 1
                            try:
                                par = getattr(hq[nd.path], attr)
                                got = None if par is None else par.id
                            except Exception as e:  # noqa
                                got = "raises-" + type(e).__name__
                            r.outcomes.add("source.%s:%s" % (attr, label))
                            if got != exp:
                                r.viol("C13|Source.%s|%s|%s|%s|%s" % (attr, label, stage, "root" if nd.parent is None else "nested",
                                                                        "none" if got is None else "wrong-or-error"),
                                       "Source.%s of %s via %s handle (%s) on forest %r is %r, expected %r" % (
                                           attr, "/".join(nd.path), label, stage, forest, got, exp), {})
        check_all("session", f)
        # the same names a second (and third) time in the same session: everything is deleted - the block as a whole,
        # the sections root by root, or the sources root by root with the block kept - and built again
        for gen, how in enumerate(("block", "roots")):
            if how == "block":
                del f.blocks["blk"]
            else:
                for nd in roots:
                    del f.blocks["blk"].sources[nd.name]
                del f.blocks["blk"]
            for nd in roots:
                del f.sections[nd.name]
            r.transitions += 2 + len(roots)
            build()
            check_all("rebuilt%d" % (gen + 1), f)
        f.close()
        f = nix.File.open(path, nix.FileMode.ReadOnly)
        check_all("reopened", f)
    finally:
        env.safe_close(f)
        env.rm(path)


# ------------------------------------------------------------------ referring lists

REFKINDS = ["block", "group", "array", "tag", "mtag", "source"]


def run_refmeta(case, r):
    env.install_seams()
    env.reset_execution()
    path = env.fresh_path("c13r_")
    f = nix.File.open(path, nix.FileMode.Overwrite)
    try:
        s1 = f.create_section("s1", "t")
        s2 = s1.create_section("s1", "t")          # nested, same name
        secs = [None, s1, s2]
        b = f.create_block("blk", "t")
        b2 = f.create_block("blk2", "t")
        ents = {}
        for blk, suffix in ((b, ""), (b2, "2")):
            ents["block" + suffix] = blk
            ents["group" + suffix] = blk.create_group("e", "t")
            ents["array" + suffix] = blk.create_data_array("e", "t", data=np.array([1.0]))
            ents["tag" + suffix] = blk.create_tag("e", "t", [0.0])
            ents["mtag" + suffix] = blk.create_multi_tag("e", "t", ents["array" + suffix])
            ents["source" + suffix] = blk.create_source("e", "t")
        nested = ents["source"].create_source("e", "t")
        prop = {"block": "referring_blocks", "group": "referring_groups", "array": "referring_data_arrays",
                "tag": "referring_tags", "mtag": "referring_multi_tags", "source": "referring_sources"}
        cur = {}
        for combo in itertools.product(range(3), repeat=4):
            assign = dict(zip(REFKINDS, (case["first"], case["second"]) + combo))
            # second block: fixed pattern derived from the first (exercises several blocks)
            full = dict(assign)
            for k in REFKINDS:
                full[k + "2"] = (assign[k] + 1) % 3
            full["nested"] = assign["source"]
            for k, v in full.items():
                if cur.get(k) == v:
                    continue
                e = nested if k == "nested" else ents[k]
                if v == 0:
                    del e.metadata
                else:
                    e.metadata = secs[v]
                cur[k] = v
            for si in (1, 2):
                sec = secs[si]
                total = []
                for k in REFKINDS:
                    r.evals += 1
                    r.nontrivial += 1
                    exp = [ents[kk].id for kk in (k, k + "2") if full[kk] == si]
                    if k == "source" and full["nested"] == si:
                        exp_nested = exp[:1] + [nested.id] + exp[1:] if full["source"] == si else [nested.id] + exp
                    else:
                        exp_nested = exp
                    got = [e.id for e in getattr(sec, prop[k])]
                    total += got
                    if sorted(got) != sorted(exp_nested):
                        missing_nested = k == "source" and sorted(got) == sorted(exp)
                        r.viol("C13|Section.%s|%s" % (prop[k], "nested-source-missing" if missing_nested else
                                                      ("missing" if set(got) < set(exp_nested) else "wrong")),
                               "%s of section %d with assignment %r gives %d entities, expected %d" % (
                                   prop[k], si, full, len(got), len(exp_nested)), {})
                        return
                r.evals += 1
                allr = [e.id for e in sec.referring_objects]
                if sorted(allr) != sorted(total):
                    r.viol("C13|Section.referring_objects|inconsistent", "referring_objects differs from the union of the referring lists", {})
                    return
        r.outcomes.add("refmeta")
    finally:
        env.safe_close(f)
        env.rm(path)


def run_refsrc(case, r):
    env.install_seams()
    env.reset_execution()
    path = env.fresh_path("c13q_")
    f = nix.File.open(path, nix.FileMode.Overwrite)
    try:
        b = f.create_block("blk", "t")
        q1 = b.create_source("q", "t")
        q2 = q1.create_source("q", "t")          # nested, same name
        srcs = [q1, q2]
        ents = {"array": b.create_data_array("e", "t", data=np.array([1.0])), "tag": b.create_tag("e", "t", [0.0])}
        ents["mtag"] = b.create_multi_tag("e", "t", ents["array"])
        prop = {"array": "referring_data_arrays", "tag": "referring_tags", "mtag": "referring_multi_tags"}
        cur = {k: set() for k in ents}
        for combo in itertools.product(range(4), repeat=3):
            want = {k: {i for i in (0, 1) if (v >> i) & 1} for k, v in zip(("array", "tag", "mtag"), combo)}
            for k, e in ents.items():
                for i in (0, 1):
                    if i in want[k] and i not in cur[k]:
                        e.sources.append(srcs[i])
                    if i not in want[k] and i in cur[k]:
                        del e.sources[srcs[i].id]
                cur[k] = set(want[k])
            for i, src in enumerate(srcs):
                total = []
                for k in ("array", "tag", "mtag"):
                    r.evals += 1
                    r.nontrivial += 1
                    exp = [ents[k].id] if i in want[k] else []
                    got = [e.id for e in getattr(src, prop[k])]
                    total += got
                    if got != exp:
                        r.viol("C13|Source.%s|%s|wrong" % (prop[k], "nested" if i else "top"),
                               "%s of source %d with memberships %r gives %r, expected %r" % (prop[k], i, want, got, exp), {})
                        return
                if sorted(e.id for e in src.referring_objects) != sorted(total):
                    r.viol("C13|Source.referring_objects|inconsistent", "referring_objects differs from the union of the lists", {})
                    return
        r.outcomes.add("refsrc")
    finally:
        env.safe_close(f)
        env.rm(path)


def run_bigtree(case, r):
    """trees that are NOT small: more than 1025 nodes (a wide level behind a wide level), searched with every limit"""
    import nixio as nix
    w1, w2 = case["w1"], case["w2"]
    env.install_seams()
    env.reset_execution()
    path = env.fresh_path("c13b_")
    f = nix.File.open(path, nix.FileMode.Overwrite)
    try:
        b = f.create_block("blk", "t")
        for kind in ("sections", "sources"):
            root = f.create_section("root", "t") if kind == "sections" else b.create_source("root", "t")
            mk = (lambda p, n: p.create_section(n, "t")) if kind == "sections" else (lambda p, n: p.create_source(n, "t"))
            levels = [[root.id], [], []]
            for i in range(w1):
                c1 = mk(root, "c%02d" % i)
                levels[1].append(c1.id)
            kids = list(root.sections) if kind == "sections" else list(root.sources)
            for i, c1 in enumerate(kids):
                for j in range(w2):
                    levels[2].append(mk(c1, "g%02d" % j).id)      # the same names under every parent
            for stage in ("in-session", "after-reopen"):
                top = (f.sections["root"] if kind == "sections" else f.blocks["blk"].sources["root"])
                finder = top.find_sections if kind == "sections" else top.find_sources
                for limit in (None, 0, 1, 2, 3):
                    r.evals += 1
                    r.nontrivial += 1
                    got = [e.id for e in (finder() if limit is None else finder(limit=limit))]
                    depth = 2 if limit is None else min(limit, 2)
                    exp = [i for lv in levels[:depth + 1] for i in lv]
                    if got != exp:
                        what = "%d results, expected %d" % (len(got), len(exp))
                        if len(got) == len(exp):
                            what = "same entities in another order" if sorted(got) == sorted(exp) else "other entities"
                        elif len(set(got)) != len(got):
                            what += " (%d reported more than once)" % (len(got) - len(set(got)))
                        r.viol("C13|bigtree|%s|%s|limit-%s|wrong-result" % (kind, stage, limit),
                               "search in a %s tree of %d nodes with limit %s: %s" % (kind, 1 + w1 + w1 * w2, limit, what), {})
                        return
                named = [e.id for e in finder(filtr=lambda e: e.name == "g01")]
                r.evals += 1
                if named != [levels[2][k * w2 + 1] for k in range(w1)]:
                    r.viol("C13|bigtree|%s|%s|filter-by-name|wrong-result" % (kind, stage), "filter name == g01 gives %d results, expected %d in parent order" % (len(named), w1), {})
                    return
                if stage == "in-session":
                    f.close()
                    f = nix.File.open(path, nix.FileMode.ReadOnly)
            f.close()
            f = nix.File.open(path, nix.FileMode.ReadWrite)
            b = f.blocks["blk"]
        r.traces = 1
    finally:
        env.safe_close(f)
        env.rm(path)


def run_deepchain(case, r):
    """a chain of equally named sections / sources 9 levels deep; every level is the metadata of some entity, and the
    parent of a section is asked through the handle that the entity's metadata attribute hands out"""
    import numpy as np
    import nixio as nix
    depth = case["depth"]
    env.install_seams()
    env.reset_execution()
    path = env.fresh_path("c13d_")
    f = nix.File.open(path, nix.FileMode.Overwrite)
    try:
        b = f.create_block("blk", "t")
        secs, p = [], f
        for i in range(depth):
            p = p.create_section("s", "t")
            secs.append(p.id)
        other = f.create_section("other", "t")            # a sibling chain with the same names
        q = other
        for i in range(depth):
            q = q.create_section("s", "t")
        srcs, p = [], b
        for i in range(depth):
            p = p.create_source("s", "t")
            srcs.append(p.id)
        holders = []
        da = b.create_data_array("d", "t", data=np.array([1.0]))
        tag = b.create_tag("t", "t", [0.0])
        mt = b.create_multi_tag("m", "t", da)
        grp = b.create_group("g", "t")
        deepest_src = f.blocks["blk"].find_sources()[-1]
        for k, ent in enumerate([b, da, tag, mt, grp, b.sources["s"], deepest_src]):
            lvl = depth - 1 - (k % 4)                          # levels depth-1 .. depth-4
            target = f.find_sections(filtr=lambda e, i=secs[lvl]: e.id == i)[0]
            ent.metadata = target
            holders.append((type(ent).__name__, lvl))
        da.sources.append(deepest_src)
        for stage in ("in-session", "after-reopen"):
            b = f.blocks["blk"]
            ents = [b, b.data_arrays["d"], b.tags["t"], b.multi_tags["m"], b.groups["g"], b.sources["s"], b.find_sources()[-1]]
            for (kname, lvl), ent in zip(holders, ents):
                r.evals += 1
                r.nontrivial += 1
                m_ = ent.metadata
                chain = []
                cur = m_
                while cur is not None and len(chain) <= depth + 1:
                    chain.append(cur.id)
                    cur = cur.parent
                exp = [secs[i] for i in range(lvl, -1, -1)]
                if chain != exp:
                    r.viol("C13|deepchain|%s|metadata-of-%s|level-%d|wrong-parent-chain" % (stage, kname, lvl + 1),
                           "section at level %d reached through the metadata of a %s: parent chain has %d entries (%s), expected %d up to the root" % (
                               lvl + 1, kname, len(chain), "right prefix" if chain == exp[:len(chain)] else "wrong entities", len(exp)), {})
                    return
            # sources: parent_source of the deepest source through tree handle and through the array's source list
            for hname, h in (("tree-handle", b.find_sources()[-1]), ("link-list-handle", b.data_arrays["d"].sources[0])):
                r.evals += 1
                chain = []
                cur = h
                while cur is not None and len(chain) <= depth + 1:
                    chain.append(cur.id)
                    cur = cur.parent_source
                if chain != srcs[::-1] or h.parent_block.id != b.id:
                    r.viol("C13|deepchain|%s|source|%s|wrong-parent-chain" % (stage, hname),
                           "deepest source (%s): parent_source chain has %d entries, expected %d" % (hname, len(chain), depth), {})
                    return
            if stage == "in-session":
                f.close()
                f = nix.File.open(path, nix.FileMode.ReadOnly)
        r.traces = 1
    finally:
        env.safe_close(f)
        env.rm(path)


def run_case(case):
    if case["k"] == "bigtree":
        r = R()
        run_bigtree(case, r)
        return r
    if case["k"] == "deepchain":
        r = R()
        run_deepchain(case, r)
        return r
    r = R()
    {"forest": run_forest, "refmeta": run_refmeta, "refsrc": run_refsrc}[case["k"]](case, r)
    return r
