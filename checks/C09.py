"""C09 - SI unit recognition and scaling are exact and consistent.

E2: the complete product of the SI tables (21 prefixes incl. none x 31 units x
7 power forms), every ordered prefix pair, every prefix triple, every pair of
different base units / powers, every product/quotient of 2..4 atoms over an
8-atom set, decorated spellings for the sanitizer, and junk strings.
Oracle: powers of ten as exact Fractions.
"""
import itertools
from fractions import Fraction

from mc.core import R
from mc import env  # noqa: F401
from nixio.util import units as U
from nixio.exceptions import InvalidUnit

LEVEL = "exploration"
RULE = ("complete Cartesian product of the SI tables: (prefix|none) x unit x power for "
        "recognition/split, all ordered prefix pairs per unit x power for scaling, all prefix "
        "triples for composition, all cross unit/power pairs for refusal, all products/quotients "
        "of 2..4 atoms over 8 atoms, decorated spellings, junk strings; a case is non-trivial when "
        "the two units differ (scaling), or the string has a prefix or a power (split); cases are "
        "distinct by construction of the product")
ASSUMPTIONS = [
    "powers limited to -3..3 (plus the explicit ^1 form); prefixes and units are the library's tables, "
    "read from the statement (21 x 31), not from the code",
    "floating point: factor compared with the exact Fraction to relative 1e-12",
    "sanitizer: unit strings with decorated spellings, and every string of length <= 5 (thorough 6) over {blank, m, u, micro signs, V, s, *}",
]

PREFIX_EXP = {"": 0, "y": -24, "z": -21, "a": -18, "f": -15, "p": -12, "n": -9, "u": -6,
              "m": -3, "c": -2, "d": -1, "da": 1, "h": 2, "k": 3, "M": 6, "G": 9, "T": 12,
              "P": 15, "E": 18, "Z": 21, "Y": 24}
PREFIXES = list(PREFIX_EXP)
UNITS = ["m", "g", "s", "A", "K", "mol", "cd", "Hz", "N", "Pa", "J", "W", "C", "V", "F", "S",
         "Wb", "T", "H", "lm", "lx", "Bq", "Gy", "Sv", "kat", "l", "L", "Ohm", "%", "dB", "rad"]
POWERS = [None, 2, 3, -1, -2, -3]          # None = no power suffix
POWER_FORMS = [("", 1, ""), ("^1", 1, "1"), ("^2", 2, "2"), ("^3", 3, "3"),
               ("^-1", -1, "-1"), ("^-2", -2, "-2"), ("^-3", -3, "-3")]
SUB_PREFIXES = ["", "m", "u", "k", "M", "da", "d", "Y"]
TRIPLE_UNITS = ["m", "s", "V", "mol", "Hz", "Sv"]
ATOMS8 = ["mV", "s", "kg", "m^2", "s^-1", "umol", "Hz", "Ohm"]

# (prefix, unit) -> string must be injective, otherwise "exactly that prefix/unit" is ill-defined
_seen = {}
AMBIGUOUS = set()
for _p in PREFIXES:
    for _u in UNITS:
        s = _p + _u
        if s in _seen and _seen[s] != (_p, _u):
            AMBIGUOUS.add(s)
        _seen[s] = (_p, _u)
# a bare unit string that also parses as prefix+unit (none in the SI tables; guarded anyway)


def pform(power):
    return "" if power is None else "^%d" % power


def pclass(p):
    return "none" if p == "" else "pref"


def powclass(power):
    return "p0" if power is None else ("pos" if power > 0 else "neg")


def expected_factor(pa, pb, power):
    k = (PREFIX_EXP[pa] - PREFIX_EXP[pb]) * (1 if power is None else power)
    return Fraction(10) ** k


def close(val, frac, tol=1e-12):
    try:
        f = Fraction(float(val))
    except (TypeError, ValueError, OverflowError):
        return False
    return abs(f - frac) <= abs(frac) * Fraction(tol)


def BOUNDS(tier):
    return {"prefixes": 21, "units": 31, "power_forms": 7,
            "triple_prefixes": 21 if tier == "thorough" else 8,
            "compound_atoms": 8, "compound_lengths": [2, 3, 4] if tier == "thorough" else [2, 3]}


def cases(tier):
    for u in UNITS:
        yield {"k": "atomic", "unit": u}
        yield {"k": "pairs", "unit": u}
        yield {"k": "cross", "unit": u}
    tp = PREFIXES if tier == "thorough" else SUB_PREFIXES
    for u in TRIPLE_UNITS:
        for power in (None, 2, -1):
            yield {"k": "triples", "unit": u, "power": power, "prefixes": tp}
    lens = [2, 3, 4] if tier == "thorough" else [2, 3]
    for a in ATOMS8:
        for n in lens:
            yield {"k": "compound", "first": a, "n": n}
    yield {"k": "junk"}
    for u in UNITS:
        yield {"k": "sanitize", "unit": u}
    for ch in SAN_ALPHA:
        yield {"k": "sanitize-strings", "first": ch, "n": 6 if tier == "thorough" else 5}


def call(fn, *a):
    try:
        return ("ok", fn(*a))
    except InvalidUnit:
        return ("InvalidUnit", None)
    except Exception as exc:  # noqa
        return (type(exc).__name__, None)


def run_atomic(case, r):
    u = case["unit"]
    for p in PREFIXES:
        for suffix, _pw, pstr in POWER_FORMS:
            s = p + u + suffix
            if p + u in AMBIGUOUS:
                continue
            r.evals += 3
            if p or suffix:
                r.nontrivial += 1
            st, v = call(U.is_atomic, s)
            if st != "ok" or not v:
                r.viol("C09|is_atomic|%s%s|not-recognised" % (pclass(p), "+pow" if suffix else ""),
                       "is_atomic(%r) does not recognise a table combination" % s, {"unit": s})
            st, v = call(U.is_si, s)
            if st != "ok" or not v:
                r.viol("C09|is_si|%s%s|not-recognised" % (pclass(p), "+pow" if suffix else ""),
                       "is_si(%r) is false for a table combination" % s, {"unit": s})
            st, v = call(U.split, s)
            r.outcomes.add("split:%s" % st)
            if st != "ok" or tuple(v) != (p, u, pstr):
                r.viol("C09|split|%s%s|wrong-parts" % (pclass(p), "+pow" if suffix else ""),
                       "split(%r) = %r, expected %r" % (s, v, (p, u, pstr)), {"unit": s})


def run_pairs(case, r):
    u = case["unit"]
    for power in POWERS:
        for pa in PREFIXES:
            a = pa + u + pform(power)
            for pb in PREFIXES:
                b = pb + u + pform(power)
                r.evals += 2
                if pa != pb:
                    r.nontrivial += 1
                cls = "%s->%s|%s" % (pclass(pa), pclass(pb) if pa != pb else "same", powclass(power))
                st, v = call(U.scalable, a, b)
                if st != "ok" or not v:
                    r.viol("C09|scalable|%s|refused" % cls,
                           "scalable(%r, %r) = %r for the same unit and power" % (a, b, v),
                           {"a": a, "b": b})
                    continue
                st, v = call(U.scaling, a, b)
                exp = expected_factor(pa, pb, power)
                if st != "ok":
                    r.outcomes.add("scaling:" + st)
                    r.viol("C09|scaling|%s|raises-%s" % (cls, st),
                           "scaling(%r, %r) raises %s" % (a, b, st), {"a": a, "b": b})
                    continue
                r.outcomes.add("scaling:ok:%s" % ("1" if exp == 1 else ("<1" if exp < 1 else ">1")))
                if not close(v, exp):
                    r.viol("C09|scaling|%s|wrong-factor" % cls,
                           "scaling(%r, %r) = %r, expected 10^%d" % (
                               a, b, v, (PREFIX_EXP[pa] - PREFIX_EXP[pb]) * (power or 1)),
                           {"a": a, "b": b, "got": repr(v)})


def run_cross(case, r):
    """different base unit, or same unit and different power -> not scalable, scaling refused"""
    u = case["unit"]
    ps = ["", "m", "k", "u"]
    for u2 in UNITS:
        for pa in ps:
            for pb in ps:
                for pw_a, pw_b in ((None, None), (2, 2), (None, 2), (2, None), (-1, 2), (2, 3), (-1, None)):
                    if u2 == u and pw_a == pw_b:
                        continue
                    a = pa + u + pform(pw_a)
                    b = pb + u2 + pform(pw_b)
                    if pa + u in AMBIGUOUS or pb + u2 in AMBIGUOUS:
                        continue
                    r.evals += 2
                    r.nontrivial += 1
                    kind = "other-unit" if u2 != u else "other-power"
                    st, v = call(U.scalable, a, b)
                    if st != "ok" or v:
                        r.viol("C09|scalable|%s|accepted" % kind,
                               "scalable(%r, %r) = %r although base unit or power differ" % (a, b, v),
                               {"a": a, "b": b})
                    st, v = call(U.scaling, a, b)
                    r.outcomes.add("cross:" + st)
                    if st != "InvalidUnit":
                        r.viol("C09|scaling|%s|not-refused" % kind,
                               "scaling(%r, %r) -> %s %r instead of InvalidUnit" % (a, b, st, v),
                               {"a": a, "b": b})


def run_triples(case, r):
    u, power, ps = case["unit"], case["power"], case["prefixes"]
    sf = pform(power)
    tab = {}
    for pa in ps:
        for pb in ps:
            tab[(pa, pb)] = call(U.scaling, pa + u + sf, pb + u + sf)
            r.evals += 1
    for pa in ps:
        for pb in ps:
            ab = tab[(pa, pb)]
            ba = tab[(pb, pa)]
            if ab[0] != "ok" or ba[0] != "ok":
                continue  # reported by the pairs case
            if pa != pb:
                r.nontrivial += 1
            if not close(ab[1] * ba[1], Fraction(1), 1e-11):
                r.viol("C09|inverse|%s->%s|%s|not-inverse" % (pclass(pa), pclass(pb), powclass(power)),
                       "scaling(%s,%s)*scaling(%s,%s) = %r != 1" % (
                           pa + u + sf, pb + u + sf, pb + u + sf, pa + u + sf, ab[1] * ba[1]),
                       {"a": pa + u + sf, "b": pb + u + sf})
            for pc in ps:
                bc = tab[(pb, pc)]
                ac = tab[(pa, pc)]
                if bc[0] != "ok" or ac[0] != "ok":
                    continue
                r.evals += 1
                if len({pa, pb, pc}) == 3:
                    r.nontrivial += 1
                lhs = ab[1] * bc[1]
                if not (abs(lhs - ac[1]) <= 1e-11 * abs(ac[1])):
                    r.viol("C09|compose|%s|not-composable" % powclass(power),
                           "scaling(a,b)*scaling(b,c) = %r but scaling(a,c) = %r for a=%s b=%s c=%s" % (
                               lhs, ac[1], pa + u + sf, pb + u + sf, pc + u + sf),
                           {"a": pa + u + sf, "b": pb + u + sf, "c": pc + u + sf})
    r.outcomes.add("triples")


def run_compound(case, r):
    first, n = case["first"], case["n"]
    for rest in itertools.product(ATOMS8, repeat=n - 1):
        for seps in itertools.product("*/", repeat=n - 1):
            s = first + "".join(sep + a for sep, a in zip(seps, rest))
            r.evals += 2
            r.nontrivial += 1
            st, v = call(U.is_compound, s)
            if st != "ok" or not v:
                r.viol("C09|is_compound|len%d|not-recognised" % n,
                       "is_compound(%r) is false for a product/quotient of atomic SI units" % s, {"unit": s})
            st, v = call(U.is_si, s)
            if st != "ok" or not v:
                r.viol("C09|is_si|compound-len%d|not-recognised" % n,
                       "is_si(%r) is false for a product/quotient of atomic SI units" % s, {"unit": s})
    r.outcomes.add("compound")


JUNK_LITERALS = ["", "mm^0", "m^", "m^02", "kk", "mmm", "m^2^2", "xm", "m-1", "Km", "1m", "m2",
                 "volt", "sec", "mmolx", "xmmol", "m^-", "^2", "mol^", "Qm", "kOhmm", "dBm ", "°C",
                 "mV^x", "k", "da", "u"]


def run_junk(case, r):
    alpha = "abqxZ1^-"
    junk = list(JUNK_LITERALS)
    for n in (1, 2, 3):
        junk += ["".join(t) for t in itertools.product(alpha, repeat=n)]
    for s in junk:
        r.evals += 4
        r.nontrivial += 1
        st, v = call(U.is_atomic, s)
        if st != "ok" or v:
            r.viol("C09|is_atomic|junk|recognised", "is_atomic(%r) accepts a non-unit string" % s, {"unit": s})
        st, v = call(U.is_si, s)
        if st != "ok" or v:
            r.viol("C09|is_si|junk|recognised", "is_si(%r) accepts a non-unit string" % s, {"unit": s})
        for other in ("m", "mV"):
            for a, b in ((s, other), (other, s)):
                st, v = call(U.scalable, a, b)
                if st != "ok" or v:
                    r.viol("C09|scalable|junk|accepted", "scalable(%r, %r) = %r" % (a, b, v), {"a": a, "b": b})
                st, v = call(U.scaling, a, b)
                if st != "InvalidUnit":
                    r.viol("C09|scaling|junk|not-refused", "scaling(%r, %r) -> %s %r" % (a, b, st, v),
                           {"a": a, "b": b})
    r.outcomes.add("junk")


def decorations(s, p):
    out = [s, " " + s, s + " ", "  " + s + "  "]
    for i in range(1, len(s)):
        out.append(s[:i] + " " + s[i:])
    if p == "u":
        for sp in ("µ", "μ", "mu"):
            out.append(sp + s[1:])
            out.append(" " + sp + " " + s[1:])
    return out


def run_sanitize(case, r):
    u = case["unit"]
    for p in PREFIXES:
        for suffix, _pw, _ps in POWER_FORMS[:1] + POWER_FORMS[2:5]:
            s = p + u + suffix
            for d in decorations(s, p):
                r.evals += 2
                if d != s:
                    r.nontrivial += 1
                st, once = call(U.sanitizer, d)
                if st != "ok":
                    r.viol("C09|sanitizer|raises", "sanitizer(%r) raises %s" % (d, st), {"unit": d})
                    continue
                st2, twice = call(U.sanitizer, once)
                if st2 != "ok" or twice != once:
                    r.viol("C09|sanitizer|not-idempotent",
                           "sanitizer(sanitizer(%r)) = %r != %r" % (d, twice, once), {"unit": d})
                if once != s:
                    r.viol("C09|sanitizer|wrong-cleanup",
                           "sanitizer(%r) = %r, expected %r" % (d, once, s), {"unit": d})
    r.outcomes.add("sanitize")


SAN_ALPHA = [" ", "m", "u", "\u00b5", "\u03bc", "V", "s", "*"]


def run_sanitize_strings(case, r):
    """every string of length <= n over {blank, m, u, both micro signs, V, s, *} that starts with case["first"]:
    the clean-up is idempotent, leaves neither blanks nor micro signs, and - where no spelled-out 'mu' arises -
    is exactly 'remove blanks, map micro signs to u'"""
    import itertools
    first = case["first"]
    for n in range(0, case["n"]):
        for rest in itertools.product(SAN_ALPHA, repeat=n):
            d = first + "".join(rest)
            r.evals += 1
            r.nontrivial += 1
            st, once = call(U.sanitizer, d)
            if st != "ok":
                r.viol("C09|sanitizer|strings|raises", "sanitizer(%r) raises %s" % (d, st), {"unit": d})
                return
            st2, twice = call(U.sanitizer, once)
            if st2 != "ok" or twice != once:
                r.viol("C09|sanitizer|strings|not-idempotent", "sanitizer(sanitizer(%r)) = %r != sanitizer(%r) = %r" % (d, twice, d, once), {"unit": d})
                return
            if " " in once or "\u00b5" in once or "\u03bc" in once:
                r.viol("C09|sanitizer|strings|blank-or-micro-sign-left", "sanitizer(%r) = %r" % (d, once), {"unit": d})
                return
            simple = d.replace(" ", "").replace("\u00b5", "u").replace("\u03bc", "u")
            if "mu" not in simple and once != simple:
                r.viol("C09|sanitizer|strings|wrong-cleanup", "sanitizer(%r) = %r, expected %r" % (d, once, simple), {"unit": d})
                return
    r.outcomes.add("sanitize-strings")


def run_case(case):
    r = R()
    {"atomic": run_atomic, "pairs": run_pairs, "cross": run_cross, "triples": run_triples,
     "compound": run_compound, "junk": run_junk, "sanitize": run_sanitize, "sanitize-strings": run_sanitize_strings}[case["k"]](case, r)
    return r
