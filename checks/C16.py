"""C16 - a data frame is a faithful table of named, typed columns.

E1 (sequences): column schemas x creation variants x initial row counts, then
all histories of length <= d over append_rows / append_column / write_rows /
write_column (by index and by name, first and last included) / write_cell
(by position and by name+row) / units / REOPEN and the refused writes; after
every step every reader is compared with a column-list model.
"""
import itertools
from collections import OrderedDict

import numpy as np

from mc import env
from mc.core import R, jhash
import nixio as nix

LEVEL = "model_checking"
RULE = ("schemas of 1..4 (thorough: 6) columns over {text,int64,float64,bool,int8} x 4 creation variants (col_dict, "
        "names+dtypes, names+data, structured array) x {0,2,3} initial rows; per frame all histories of length <= d over "
        "{append_rows(1|2), append_column(every type), write_rows(every row; two rows), write_column(every column by "
        "index and by name), write_cell(every cell by position and by name+row), units, REOPEN, refused writes}; every "
        "reader (df[:], read_rows, read_columns by index/name, read_cell both forms, column_names, dtype, columns, units, "
        "shape, df_shape, row_count, len) compared with the model after every step and after reopen; non-trivial = "
        "history with an accepted write; distinct by construction")
ASSUMPTIONS = [
    "read_cell / write_cell address cells as position=[row, column]; read_cell by name takes col_name=[name]",
    "column types are the five stated ones; text never contains NUL",
    "row index lists for write_rows/read_rows are ascending (an HDF5 selection limit)",
    "an invalid write that is accepted without any effect (e.g. unknown column on an empty table) is not a violation",
]
CHUNK = 2
WALL_CAP = {"quick": 900, "thorough": 7200}
PYT = {"text": str, "int64": np.int64, "float64": np.float64, "bool": np.bool_, "int8": np.int8}
VALS = {
    "text": ["a", "ünï", "", "long " * 30, "Zz"],
    "int64": [2 ** 63 - 1, -2 ** 63, 0, 7, -1],
    "float64": [float("nan"), -0.0, 1.5, float("inf"), 1e-300],
    "bool": [True, False, True, True, False],
    "int8": [127, -128, 0, 5, -1],
}
SCHEMAS_Q = [["int8"], ["text"], ["int64", "text"], ["text", "float64", "bool"], ["int8", "text", "int64", "float64"]]
SCHEMAS_T = SCHEMAS_Q + [["bool", "bool"], ["float64", "text", "int8", "bool", "int64", "text"]]
NAMES = ["n", "Z", "ä b", "x1", "c5", "a", "c10", "c11", "c2", "Zz", "n ", "col12"]


def val(t, k):
    return VALS[t][k % len(VALS[t])]


def veq(a, b, t):
    if t == "text":
        return isinstance(a, str) and a == b
    if t == "float64":
        a, b = float(a), float(b)
        if a != a or b != b:
            return a != a and b != b
        return a == b and np.signbit(a) == np.signbit(b)
    if t == "bool":
        return isinstance(a, (bool, np.bool_)) and bool(a) == bool(b)
    return isinstance(a, (int, np.integer)) and not isinstance(a, (bool, np.bool_)) and int(a) == int(b)


class Model:
    def __init__(self, types, nrows):
        self.names = NAMES[:len(types)]
        self.types = list(types)
        self.cols = [[val(t, r + 3 * c) for r in range(nrows)] for c, t in enumerate(types)]
        self.units = None

    @property
    def nrows(self):
        return len(self.cols[0]) if self.cols else 0

    def rows(self):
        return [tuple(col[r] for col in self.cols) for r in range(self.nrows)]

    def key(self):
        return jhash([self.names, self.types, [[repr(v) for v in c] for c in self.cols], self.units])


def np_dtype(model):
    return [(n, nix.util.vlen_str_dtype if t == "text" else PYT[t]) for n, t in zip(model.names, model.types)]


def create(b, name, model, variant):
    rows = model.rows()
    if variant == "col_dict":
        cd = OrderedDict((n, str if t == "text" else PYT[t]) for n, t in zip(model.names, model.types))
        return b.create_data_frame(name, "t", col_dict=cd, data=rows if rows else None)
    if variant == "names+dtypes":
        return b.create_data_frame(name, "t", col_names=list(model.names), col_dtypes=[str if t == "text" else PYT[t] for t in model.types],
                                   data=rows if rows else None)
    if variant in ("col_dict-builtin", "names+dtypes-builtin"):
        # the column types given as Python's builtin types (bool is a subclass of int!)
        BUILTIN = {"text": str, "int64": int, "float64": float, "bool": bool, "int8": np.int8}
        if variant == "col_dict-builtin":
            cd = OrderedDict((n, BUILTIN[t]) for n, t in zip(model.names, model.types))
            return b.create_data_frame(name, "t", col_dict=cd, data=rows if rows else None)
        return b.create_data_frame(name, "t", col_names=list(model.names), col_dtypes=[BUILTIN[t] for t in model.types],
                                   data=rows if rows else None)
    if variant == "names+data":
        pyrows = [tuple({"text": str, "int64": int, "float64": float, "bool": bool}[t](v) for v, t in zip(row, model.types)) for row in rows]
        return b.create_data_frame(name, "t", col_names=list(model.names), data=pyrows)
    if variant == "structured":
        dt = [(n, "U200" if t == "text" else PYT[t]) for n, t in zip(model.names, model.types)]
        arr = np.array(rows, dtype=dt)
        return b.create_data_frame(name, "t", data=arr)
    raise ValueError(variant)


def verify(r, df, m, opk, stage):
    def bad(check, msg):
        r.viol("C16|%s|%s|%s" % (opk, stage, check), "after %s (%s): %s" % (opk, stage, msg),
               {"schema": m.types, "rows": m.nrows})
        return False
    r.transitions += 1
    try:
        if list(df.column_names) != m.names:
            return bad("column_names", "column_names %r, model %r" % (list(df.column_names), m.names))
        got_types = [("text" if (dt == nix.util.vlen_str_dtype or np.dtype(dt).kind == "O") else str(np.dtype(dt))) for dt in df.dtype]
        if got_types != m.types:
            return bad("dtype", "column types %r, model %r" % (got_types, m.types))
        n, c = m.nrows, len(m.names)
        if tuple(df.shape) != (n,) or tuple(df.df_shape) != (n, c) or df.row_count() != n or len(df) != n:
            return bad("counts", "shape %r df_shape %r row_count %r len %r, model has %d rows x %d columns" % (
                df.shape, df.df_shape, df.row_count(), len(df), n, c))
        units = df.units
        exp_units = None if m.units is None else list(m.units)
        if (None if units is None else [u for u in units]) != exp_units:
            return bad("units", "units %r, model %r" % (units, exp_units))
        cols = df.columns
        if [x[0] for x in cols] != m.names or [x[2] for x in cols] != (exp_units if exp_units and any(exp_units) else [None] * c):
            return bad("columns", "columns %r" % (cols,))
        whole = df[:]
        if len(whole) != n:
            return bad("read-all", "df[:] has %d rows, model %d" % (len(whole), n))
        for ri in range(n):
            row = whole[ri]
            for ci, t in enumerate(m.types):
                if not veq(row[ci], m.cols[ci][ri], t):
                    return bad("read-all", "df[:][%d][%d] = %r, model %r" % (ri, ci, row[ci], m.cols[ci][ri]))
            one = df.read_rows(ri)
            for ci, t in enumerate(m.types):
                if not veq(one[ci], m.cols[ci][ri], t):
                    return bad("read_rows", "read_rows(%d)[%d] = %r, model %r" % (ri, ci, one[ci], m.cols[ci][ri]))
                cell = df.read_cell(position=[ri, ci])
                if not veq(cell, m.cols[ci][ri], t):
                    return bad("read_cell-position", "read_cell([%d,%d]) = %r, model %r" % (ri, ci, cell, m.cols[ci][ri]))
                cell = df.read_cell(col_name=[m.names[ci]], row_idx=ri)
                if not veq(cell, m.cols[ci][ri], t):
                    return bad("read_cell-name", "read_cell(%r, %d) = %r, model %r" % (m.names[ci], ri, cell, m.cols[ci][ri]))
        if n >= 2:
            two = df.read_rows([0, n - 1])
            for k, ri in enumerate((0, n - 1)):
                for ci, t in enumerate(m.types):
                    if not veq(two[k][ci], m.cols[ci][ri], t):
                        return bad("read_rows-list", "read_rows([0,%d])[%d][%d] = %r" % (n - 1, k, ci, two[k][ci]))
        for ci, t in enumerate(m.types):
            for how, col in (("index", df.read_columns(index=[ci])), ("name", df.read_columns(name=[m.names[ci]]))):
                if len(col) != n or not all(veq(col[ri], m.cols[ci][ri], t) for ri in range(n)):
                    return bad("read_columns-" + how, "read_columns(%s of column %d) = %r, model %r" % (how, ci, list(col), m.cols[ci]))
        if c >= 2 and n:
            sub = df.read_columns(name=[m.names[0], m.names[-1]])
            for ri in range(n):
                if not (veq(sub[ri][0], m.cols[0][ri], m.types[0]) and veq(sub[ri][1], m.cols[-1][ri], m.types[-1])):
                    return bad("read_columns-multi", "read_columns(first,last)[%d] = %r" % (ri, sub[ri]))
    except Exception as e:  # noqa
        return bad("reader-raises-" + type(e).__name__, "a reader raises %s: %s" % (type(e).__name__, str(e)[:120]))
    return True


# ------------------------------------------------------------------ operations

def enabled(m, tier):
    ops = []
    n, c = m.nrows, len(m.names)
    for k in (1, 2):
        ops.append(("append_rows", k))
    for t in PYT:
        if c < 6:
            ops.append(("append_column", t))
    for ri in range(n):
        ops.append(("write_rows", [ri]))
    if n >= 2:
        ops.append(("write_rows", [0, n - 1]))
    if n:
        for ci in range(c):
            ops.append(("write_column", "index", ci))
            ops.append(("write_column", "name", ci))
        for ri in range(n):
            for ci in range(c):
                ops.append(("write_cell", "position", ri, ci))
                ops.append(("write_cell", "name", ri, ci))
    ops.append(("units", "set"))
    ops.append(("units", "some"))
    ops.append(("reopen",))
    ops.append(("bad", "append_rows-wrong-length"))
    ops.append(("bad", "append_column-wrong-length"))
    ops.append(("bad", "append_column-duplicate-name"))
    ops.append(("bad", "write_rows-out-of-range"))
    ops.append(("bad", "write_column-unknown-name"))
    ops.append(("bad", "write_column-wrong-length"))
    ops.append(("bad", "write_cell-row-out-of-range"))
    if n >= 2:
        # every wrong column length below the row count (a single entry would broadcast, an empty one too)
        ops.append(("bad", "write_column-single-entry"))
        ops.append(("bad", "write_column-one-short"))
        ops.append(("bad", "write_column-empty"))
        ops.append(("bad", "write_column-single-entry-by-index"))
        ops.append(("bad", "append_column-single-entry"))
    if n >= 1:
        ops.append(("bad", "write_rows-negative-index-below-first-row"))
        ops.append(("bad", "write_rows-negative-index-twice-below"))
        ops.append(("bad", "write_cell-column-out-of-range"))
        ops.append(("bad", "write_column-index-out-of-range"))
    if n >= 1:
        ops.append(("bad", "write_rows-second-index-out-of-range"))
        ops.append(("bad", "write_rows-second-row-wrong-length"))
    return ops


def apply(df, m, op, k):
    """executes on the frame and on the model; returns 'refused-expected' marker for bad ops"""
    n, c = m.nrows, len(m.names)
    if op[0] == "append_rows":
        rows = [tuple(val(t, k + 7 * j + ci) for ci, t in enumerate(m.types)) for j in range(op[1])]
        df.append_rows(rows)
        for row in rows:
            for ci in range(c):
                m.cols[ci].append(row[ci])
    elif op[0] == "append_column":
        t = op[1]
        name = [x for x in NAMES + ["new1", "new2", "new3"] if x not in m.names][0]
        vals = [val(t, k + r) for r in range(n)]
        df.append_column(vals if n else [], name, datatype=str if t == "text" else PYT[t])
        m.names.append(name)
        m.types.append(t)
        m.cols.append(list(vals))
        if m.units is not None:
            m.units.append(None)
    elif op[0] == "write_rows":
        idx = op[1]
        rows = [tuple(val(t, k + 11 * j + ci + 1) for ci, t in enumerate(m.types)) for j in range(len(idx))]
        df.write_rows(rows, idx)
        for row, ri in zip(rows, idx):
            for ci in range(c):
                m.cols[ci][ri] = row[ci]
    elif op[0] == "write_column":
        ci = op[2]
        t = m.types[ci]
        vals = [val(t, k + r + 2) for r in range(n)]
        if op[1] == "index":
            df.write_column(vals, index=ci)
        else:
            df.write_column(vals, name=m.names[ci])
        m.cols[ci] = list(vals)
    elif op[0] == "write_cell":
        ri, ci = op[2], op[3]
        t = m.types[ci]
        v = val(t, k + 4)
        if op[1] == "position":
            df.write_cell(v, position=[ri, ci])
        else:
            df.write_cell(v, col_name=m.names[ci], row_idx=ri)
        m.cols[ci][ri] = v
    elif op[0] == "units":
        if op[1] == "set":
            u = ["mV"] * c
        else:
            u = [None] * c
            u[-1] = "ms"
        df.units = u
        m.units = list(u)
    elif op[0] == "bad":
        kind = op[1]
        if kind == "append_rows-wrong-length":
            df.append_rows([tuple(val(t, 1) for t in m.types) + (1,)])
        elif kind == "append_column-wrong-length":
            df.append_column([1] * (n + 1), "zz_new", datatype=np.int64)
        elif kind == "append_column-duplicate-name":
            df.append_column([1] * n, m.names[0], datatype=np.int64)
        elif kind == "write_rows-out-of-range":
            df.write_rows([tuple(val(t, 1) for t in m.types)], [n])
        elif kind == "write_column-unknown-name":
            df.write_column([val(m.types[0], 1)] * n, name="no such column")
        elif kind == "write_column-wrong-length":
            df.write_column([val(m.types[0], 1)] * (n + 1), name=m.names[0])
        elif kind == "write_cell-row-out-of-range":
            df.write_cell(val(m.types[0], 1), position=[n, 0])
        elif kind == "write_column-single-entry":
            df.write_column([val(m.types[-1], 1)], name=m.names[-1])
        elif kind == "write_column-single-entry-by-index":
            df.write_column([val(m.types[0], 1)], index=0)
        elif kind == "write_column-one-short":
            df.write_column([val(m.types[0], 1)] * (n - 1), name=m.names[0])
        elif kind == "write_column-empty":
            df.write_column([], name=m.names[0])
        elif kind == "append_column-single-entry":
            df.append_column([1], "zz_new", datatype=np.int64)
        elif kind == "write_rows-negative-index-below-first-row":
            df.write_rows([tuple(val(t, 2) for t in m.types)], [-n - 1])
        elif kind == "write_rows-negative-index-twice-below":
            df.write_rows([tuple(val(t, 2) for t in m.types)], [-2 * n])
        elif kind == "write_cell-column-out-of-range":
            df.write_cell(val(m.types[0], 1), position=[0, len(m.names)])
        elif kind == "write_column-index-out-of-range":
            df.write_column([val(m.types[0], 1)] * n, index=len(m.names))
        elif kind == "write_rows-second-index-out-of-range":
            df.write_rows([tuple(val(t, 2) for t in m.types), tuple(val(t, 3) for t in m.types)], [0, n])
        elif kind == "write_rows-second-row-wrong-length":
            df.write_rows([tuple(val(t, 2) for t in m.types), tuple(val(t, 3) for t in m.types) + (1,)], [0, n - 1] if n > 1 else [0, 0])


def opkind(op):
    if op[0] in ("write_column", "write_cell", "units", "bad"):
        return "%s:%s" % (op[0], op[1])
    if op[0] == "append_column":
        return "append_column:%s" % op[1]
    if op[0] == "write_rows":
        return "write_rows:%d" % len(op[1])
    return op[0]


def long_history(j, c):
    """hand-written long histories on one handle (plus the held second one): writes by column index around refused
    and accepted column appends; every step is verified"""
    if j == 0:
        return [("write_column", "index", 0), ("bad", "append_column-duplicate-name"), ("append_column", "int64"),
                ("write_column", "index", c), ("write_cell", "position", 1, c), ("bad", "write_column-index-out-of-range"),
                ("append_rows", 1), ("bad", "append_column-duplicate-name"), ("append_column", "text"),
                ("write_column", "index", c + 1), ("write_column", "name", c), ("reopen",), ("write_column", "index", c + 1),
                ("bad", "append_column-wrong-length"), ("append_column", "float64"), ("write_column", "index", c + 2),
                ("write_rows", [0]), ("bad", "write_column-index-out-of-range")]
    return [("write_cell", "position", 0, 0), ("append_column", "bool"), ("write_cell", "position", 1, c), ("append_rows", 2),
            ("bad", "append_rows-wrong-length"), ("write_rows", [0, 3]), ("append_column", "int8"), ("write_column", "index", c + 1),
            ("bad", "write_rows-out-of-range"), ("append_rows", 1), ("write_column", "name", 0), ("units", "set"),
            ("append_column", "text"), ("write_cell", "name", 4, c + 2), ("bad", "write_cell-column-out-of-range"),
            ("write_rows", [4]), ("reopen",), ("write_column", "index", c + 2), ("append_rows", 1)]



def BOUNDS(tier):
    return {"schemas": SCHEMAS_Q if tier == "quick" else SCHEMAS_T, "variants": 6, "initial_rows": [0, 2, 3],
            "depth": 2 if tier == "quick" else 3}


def cases(tier):
    for sch in ([["int64", "text", "float64"], ["text"], ["int8", "bool", "int64", "float64", "text", "text", "int64", "float64", "bool", "int8", "text", "int64"]]):
        for rows in ((1100,) if tier == "quick" else (300, 1100, 3000)):
            yield {"k": "bigframe", "schema": sch, "rows": rows}
    for sch in (["int64", "text", "float64"], ["text"], ["bool", "int8"]):
        yield {"k": "bigframe", "schema": sch, "rows": 2, "repeat": 3}
    for sch in (["int8"], ["int64", "text"], ["text", "float64", "bool"]):
        for j in (0, 1):
            yield {"schema": sch, "variant": "col_dict", "nrows": 2, "depth": 0, "tier": tier, "first": None, "long": j}
    yield from small_cases(tier)


def small_cases(tier):
    schemas = SCHEMAS_Q if tier == "quick" else SCHEMAS_T
    d = 2 if tier == "quick" else 3
    for si, sch in enumerate(schemas):
        for variant in ("col_dict", "names+dtypes", "names+data", "structured", "col_dict-builtin", "names+dtypes-builtin"):
            if variant == "names+data" and "int8" in sch:
                continue
            for nrows in (0, 2, 3):
                if variant in ("names+data", "structured") and nrows == 0:
                    continue
                deep = variant == "col_dict" and nrows in (0, 2)
                if not deep:
                    yield {"schema": sch, "variant": variant, "nrows": nrows, "depth": 1, "tier": tier, "first": None}
                    continue
                # one case per first operation (prefix-closed sets of histories), so the work spreads over the workers
                yield {"schema": sch, "variant": variant, "nrows": nrows, "depth": 0, "tier": tier, "first": None}
                # thorough: depth 3 for the schemas of up to two columns, depth 2 for the wider ones (the operation
                # alphabet has about 55 entries; 55^3 histories per schema and row count)
                dd = d if (tier == "quick" or len(sch) <= 2) else 2
                for i in range(len(enabled(Model(sch, nrows), tier))):
                    yield {"schema": sch, "variant": variant, "nrows": nrows, "depth": dd, "tier": tier, "first": i}


def run_bigframe(case):
    """tables that are NOT small: more than 1024 rows, a dozen columns, appends of hundreds of rows (also refused ones
    whose invalid row comes late), whole-column writes"""
    r = R()
    env.install_seams()
    env.reset_execution()
    path = env.fresh_path("c16b_")
    f = nix.File.open(path, nix.FileMode.Overwrite)
    try:
        b = f.create_block("b", "t")
        sch = case["schema"]
        n0 = case["rows"]
        m = Model(sch, n0)
        df = create(b, "big", m, "col_dict")
        steps = ["verify", "append-600", "bad-append-late", "write_column-all", "write_rows-spread", "bad-write-rows-late", "append_column", "reopen", "write_cell-last"]
        if case.get("repeat"):
            # a long history on a small table: the same operations three times over (appended columns get new names)
            steps = steps * case["repeat"]
        ncol = [0]
        k = 0
        for st in steps:
            k += 1
            r.evals += 1
            r.nontrivial += 1
            n, c = m.nrows, len(m.names)
            exc = None
            try:
                if st == "append-600":
                    rows = [tuple(val(t, ri + 7 * ci + k) for ci, t in enumerate(m.types)) for ri in range(600 if not case.get("repeat") else 3)]
                    df.append_rows(rows)
                    for ci in range(c):
                        m.cols[ci].extend(row[ci] for row in rows)
                elif st == "bad-append-late":
                    rows = [tuple(val(t, ri + ci) for ci, t in enumerate(m.types)) for ri in range(600 if not case.get("repeat") else 4)]
                    rows[555 if not case.get("repeat") else 3] = rows[-1] + (1,)              # one row too long, far behind any batch size
                    try:
                        df.append_rows(rows)
                        r.outcomes.add("bad-accepted-without-effect?")
                    except Exception as e:  # noqa
                        r.outcomes.add("refused:" + type(e).__name__)
                elif st == "write_column-all":
                    for ci in (0, c - 1):
                        col = [val(m.types[ci], ri + 3 * k) for ri in range(n)]
                        df.write_column(col, name=m.names[ci])
                        m.cols[ci] = list(col)
                elif st == "write_rows-spread":
                    idx = sorted({0, 1, 255, 256, 511, 512, 1023, 1024, n - 2, n - 1} & set(range(n)))
                    rows = [tuple(val(t, ri + ci + 11 * k) for ci, t in enumerate(m.types)) for ri in idx]
                    df.write_rows(rows, idx)
                    for j, ri in enumerate(idx):
                        for ci in range(c):
                            m.cols[ci][ri] = rows[j][ci]
                elif st == "bad-write-rows-late":
                    idx = list(range(0, min(n, 700)))
                    rows = [tuple(val(t, ri + ci + 13 * k) for ci, t in enumerate(m.types)) for ri in idx]
                    rows[650 if len(rows) > 650 else len(rows) - 1] = (1,)
                    try:
                        df.write_rows(rows, idx)
                        r.outcomes.add("bad-accepted-without-effect?")
                    except Exception as e:  # noqa
                        r.outcomes.add("refused:" + type(e).__name__)
                elif st == "append_column":
                    col = [val("int64", ri + k) for ri in range(n)]
                    ncol[0] += 1
                    cname = "zz_new" if ncol[0] == 1 else "zz_new%d" % ncol[0]
                    df.append_column(col, cname, datatype=np.int64)
                    m.names.append(cname)
                    m.types.append("int64")
                    m.cols.append(list(col))
                    if m.units is not None:
                        m.units = list(m.units) + [None]
                elif st == "reopen":
                    f.close()
                    f = nix.File.open(path, nix.FileMode.ReadWrite)
                    df = f.blocks["b"].data_frames["big"]
                elif st == "write_cell-last":
                    df.write_cell(val(m.types[0], 99), position=[n - 1, 0])
                    m.cols[0][n - 1] = val(m.types[0], 99)
            except Exception as e:  # noqa
                exc = e
            if exc is not None:
                r.viol("C16|big:%s|raises-%s" % (st, type(exc).__name__), "%s on a %d-row table raises %s: %s" % (st, n, type(exc).__name__, str(exc)[:120]), {})
                return r
            r.transitions += 1
            if not verify_big(r, df, m, "big:" + st):
                return r
        r.traces = 1
        return r
    finally:
        env.safe_close(f)
        env.rm(path)


def verify_big(r, df, m, opk):
    """whole-table comparison (the cell-by-cell readers of verify() are quadratic in the table size)"""
    def bad(check, msg):
        r.viol("C16|%s|in-session|%s" % (opk, check), "after %s: %s" % (opk, msg), {"rows": m.nrows})
        return False
    n, c = m.nrows, len(m.names)
    if list(df.column_names) != m.names or tuple(df.df_shape) != (n, c) or len(df) != n:
        return bad("counts", "names %r shape %r len %r, model %d x %d" % (list(df.column_names), df.df_shape, len(df), n, c))
    whole = df[:]
    for ci, t in enumerate(m.types):
        colv = [row[ci] for row in whole]
        badrows = [ri for ri in range(n) if not veq(colv[ri], m.cols[ci][ri], t)]
        if badrows:
            return bad("read-all", "column %d: %d cells differ, first at row %d: %r, model %r" % (ci, len(badrows), badrows[0], colv[badrows[0]], m.cols[ci][badrows[0]]))
        col = df.read_columns(name=[m.names[ci]])
        badrows = [ri for ri in range(n) if not veq(col[ri], m.cols[ci][ri], t)]
        if len(col) != n or badrows:
            return bad("read_columns", "column %d read by name: %d cells differ, first at row %r" % (ci, len(badrows), badrows[:1]))
    for ri in sorted({0, 1, 255, 256, 1023, 1024, n - 1} & set(range(n))):
        row = df.read_rows(ri)
        if any(not veq(row[ci], m.cols[ci][ri], t) for ci, t in enumerate(m.types)):
            return bad("read_rows", "read_rows(%d) = %r" % (ri, row))
    return True


def run_case(case):
    if case.get("k") == "bigframe":
        return run_bigframe(case)
    r = R()
    env.install_seams()
    env.reset_execution()
    path = env.fresh_path("c16_")
    f = nix.File.open(path, nix.FileMode.Overwrite)
    b = f.create_block("b", "t")
    counter = [0]
    state = {"f": f, "b": b}
    sch, variant, nrows, depth = case["schema"], case["variant"], case["nrows"], case["depth"]

    def counterpart():
        """a frame in another block with the SAME column names but other column types (text <-> numeric),
        read before every verification: nothing a reader learns from one frame may be applied to another"""
        if state.get("cpb") is not state["b"]:
            alt = {"text": "int64", "int64": "text", "float64": "text", "bool": "text", "int8": "text"}
            cm = Model([alt[t] for t in sch], 2)
            cb = state["f"].blocks["cp"] if "cp" in state["f"].blocks else state["f"].create_block("cp", "t")
            if "df1" not in cb.data_frames and state["f"].mode != nix.FileMode.ReadOnly:
                create(cb, "df1", cm, "col_dict")
            state["cpb"], state["cpm"] = state["b"], cm
        cb = state["f"].blocks["cp"]
        if "df1" in cb.data_frames:
            return verify(r, cb.data_frames["df1"], state["cpm"], "counterpart-frame-same-column-names", "in-session")
        return True

    def run_hist(hist):
        counter[0] += 1
        name = "df%d" % counter[0]
        r.evals += 1
        m = Model(sch, nrows)
        if not counterpart():
            return False
        try:
            df = create(state["b"], name, m, variant)
        except Exception as e:  # noqa
            r.viol("C16|create:%s|raises-%s" % (variant, type(e).__name__),
                   "creating a frame %r with %d rows via %s raises %s: %s" % (sch, nrows, variant, type(e).__name__, str(e)[:120]), {})
            return False
        # a second handle that has already read the table; every later reader must agree through it too
        held = state["b"].data_frames[name]
        _ = (held.column_names, held.dtype, held.df_shape, held.units)
        if not hist:
            if not verify(r, df, m, "create:" + variant, "in-session"):
                return False
            return (name, m, "create:" + variant)
        wrote = False
        for i, op in enumerate(hist):
            last = i == len(hist) - 1
            nv = len(r.violations)
            opk = opkind(op)
            if op[0] == "reopen":
                state["f"].close()
                state["f"] = nix.File.open(path, nix.FileMode.ReadWrite)
                state["b"] = state["f"].blocks["b"]
                df = state["b"].data_frames[name]
                held = state["b"].data_frames[name]
                exc = None
            else:
                snapshot = ([list(x) for x in m.cols], list(m.names), list(m.types), m.units)
                try:
                    apply(df, m, op, counter[0] + i)
                    exc = None
                except Exception as e:  # noqa
                    exc = e
                    m.cols, m.names, m.types, m.units = snapshot
            ok = True
            if op[0] == "bad":
                # refused or not: the table must be unchanged (verified below against the untouched model)
                r.outcomes.add("bad-accepted-without-effect?" if exc is None else "refused:" + type(exc).__name__)
            elif exc is not None:
                r.viol("C16|%s|raises-%s" % (opk, type(exc).__name__),
                       "%s raises %s: %s (schema %r, %d rows)" % (opk, type(exc).__name__, str(exc)[:120], m.types, m.nrows), {"hist": hist})
                ok = False
            else:
                wrote = wrote or op[0] != "reopen"
                r.outcomes.add("ok:" + op[0])
            if ok:
                ok = verify(r, df, m, opk, "in-session") and verify(r, held, m, opk, "second-handle")
            if ok and last:
                ok = counterpart() and verify(r, df, m, opk, "after-reading-counterpart")
            if not ok:
                if not last and "long" not in case:
                    del r.violations[nv:]
                    r.bump("pruned_after_earlier_violation")
                return False
        r.traces += 1
        r.states.add(m.key())
        if wrote:
            r.nontrivial += 1
        return (name, m, opkind(hist[-1]))

    def model_after(hist):
        """model-only replay to know which ops are enabled"""
        m = Model(sch, nrows)

        class Dummy:
            def __getattr__(self, name):
                return lambda *a, **k: None
        for i, op in enumerate(hist):
            if op[0] in ("reopen", "bad"):
                continue
            apply(Dummy(), m, op, 0)
        return m

    try:
        pending = []
        if "long" in case:
            stack = [long_history(case["long"], len(sch))]
        elif case.get("first") is None:
            stack = [[]]
        else:
            stack = [[enabled(Model(sch, nrows), case["tier"])[case["first"]]]]
        while stack:
            hist = stack.pop()
            res = run_hist(hist)
            if res is False:
                continue
            pending.append(res)
            if len(hist) < depth:
                for op in enabled(model_after(hist), case["tier"]):
                    stack.append(hist + [op])
            if len(pending) >= 60 or not stack:
                state["f"].close()
                state["f"] = nix.File.open(path, nix.FileMode.ReadOnly)
                for name, m, opk in pending:
                    verify(r, state["f"].blocks["b"].data_frames[name], m, opk, "after-reopen-ro")
                state["f"].close()
                env.rm(path)
                state["f"] = nix.File.open(path, nix.FileMode.Overwrite)
                state["b"] = state["f"].create_block("b", "t")
                pending = []
        return r
    finally:
        env.safe_close(state["f"])
        env.rm(path)
