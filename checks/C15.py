"""C15 - calibration is applied on every read and never touches the stored values.

E2: coefficient lists x origins (full product on one array), numeric dtypes x
shapes x read paths, and all set/clear histories of the two calibration
attributes; the raw values are read with h5py directly from the dataset.
"""
import itertools

import numpy as np

from mc import env
from mc.core import R
import nixio as nix

LEVEL = "exploration"
RULE = ("(A) every coefficient list of length 0..5 over {0,1,-2,0.5} x origin in {unset,0,2.5,-1} on a float64 "
        "vector (5460 calibrations); (B) 10 numeric dtypes x 6 shapes x 8 calibrations x every read path "
        "(whole, [...], np.array, read_direct, iteration, every index expression of a reduced alphabet, single "
        "elements, get_slice views and indexing on them); (C) every set/clear history of length <= 3 over "
        "{set A, set B, clear coefficients, set origin, clear origin}; (D) tagged_data / feature_data of tags "
        "and multi-tags on calibrated arrays; non-trivial = read with an active calibration; distinct by construction")
ASSUMPTIONS = [
    "reference: Horner evaluation in float64 of (raw - origin), relative tolerance 1e-12; empty coefficients with "
    "a non-zero origin act as the identity polynomial (0, 1)",
    "raw values are read with h5py from the array's 'data' dataset (layout knowledge used by the oracle only)",
]
COEFF_ALPHA = [0.0, 1.0, -2.0, 0.5]
ORIGINS = [None, 0, 2.5, -1]
DTYPES = ["int8", "int16", "int32", "int64", "uint8", "uint16", "uint32", "uint64", "float32", "float64"]
SHAPES = [(1,), (3,), (2, 2), (3, 1), (1, 2, 2), (2, 1, 3)]
CALS = [([], None), ([], 2.5), ([], 0), ([1.0, 2.0], None), ([0.5], -1), ([0.0, 1.0], 0),
        ([1.0, -2.0, 0.5], 2.5), ([0.0, 0.0, 0.0, 0.0, 1.0], -1)]
CHUNK = 2


def BOUNDS(tier):
    return {"coefficient_lists": 1365, "origins": 4, "dtypes": len(DTYPES), "shapes": len(SHAPES),
            "calibrations_per_array": len(CALS), "history_depth": 3 if tier == "quick" else 5,
            "history_dtypes": 3 if tier == "quick" else len(DTYPES), "history_operations": 7}


def cases(tier):
    for n in range(0, 6):
        for first in (COEFF_ALPHA if n else [None]):
            yield {"k": "product", "n": n, "first": first}
    for dt in DTYPES:
        for shp in SHAPES:
            yield {"k": "paths", "dtype": dt, "shape": list(shp)}
    d = 3 if tier == "quick" else 5
    for dt in (("int16", "float32", "uint64") if tier == "quick" else DTYPES):
        for first in sorted(HOPS):         # one case per first operation: the work spreads over the workers
            yield {"k": "hist", "dtype": dt, "depth": d, "first": first}
    for dt in ("int32", "float64"):
        yield {"k": "tags", "dtype": dt}
    for dt, n, cols in (("int8", 700, None), ("uint8", 700, None), ("int8", 600, 30), ("int16", 70000, None), ("uint16", 70000, None),
                        ("float64", 140000, None), ("float32", 132000, 200), ("int16", 132072, None), ("int64", 3000, None)):
        yield {"k": "big", "dtype": dt, "n": n, "cols": cols}


def horner(raw, coeff, origin):
    if not coeff and not origin:
        return raw
    x = raw.astype(np.float64) - (origin if origin else 0.0)
    if not coeff:
        return x
    y = np.zeros_like(x)
    for c in reversed(coeff):
        y = y * x + c
    return y


def values_for(dt, shape):
    size = int(np.prod(shape))
    info = np.iinfo(dt) if np.dtype(dt).kind in "iu" else None
    if info is not None:
        base = [info.min, info.max, 0, 1, 3, info.max // 2, 7, info.min // 2 + 1]
    else:
        base = [-1.5, 0.0, 2.25, 1e3, -0.125, 3.0, 1e-3, 7.5]
    vals = [base[i % len(base)] for i in range(size)]
    return np.array(vals, dtype=dt).reshape(shape)


def same(got, exp, exact):
    got = np.asarray(got)
    exp = np.asarray(exp)
    if got.shape != exp.shape:
        return False
    if got.dtype != exp.dtype:
        return False
    if exact:
        return got.tobytes() == exp.tobytes()
    return bool(np.all(np.abs(got - exp) <= 1e-12 * np.maximum(np.abs(exp), 1e-300)) or np.array_equal(got, exp))


class S:
    def __init__(self):
        env.install_seams()
        env.reset_execution()
        self.path = env.fresh_path("c15_")
        self.f = nix.File.open(self.path, nix.FileMode.Overwrite)
        self.b = self.f.create_block("b", "t")

    def raw(self, name="d"):
        self.f.flush()
        return self.f._h5file["data/b/data_arrays/%s/data" % name][...]

    def close(self):
        env.safe_close(self.f)
        env.rm(self.path)


def calcls(coeff, origin):
    return "%s+%s" % ("nocoeff" if not coeff else "coeff%d" % len(coeff),
                      "unset" if origin is None else ("zero" if origin == 0 else "origin"))


def check_read(r, path, got, raw_region, coeff, origin, dt):
    r.evals += 1
    active = bool(coeff) or bool(origin)
    if active:
        r.nontrivial += 1
    exp = horner(np.asarray(raw_region), coeff, origin)
    if np.ndim(exp) == 0:
        exp = np.reshape(exp, (1,))
    ok = same(got, exp, exact=not active)
    r.outcomes.add("%s:%s" % (path, "cal" if active else "raw"))
    if not ok:
        g = np.asarray(got)
        kind = "wrong-dtype" if g.dtype != np.asarray(exp).dtype else ("wrong-shape" if g.shape != np.asarray(exp).shape else "wrong-values")
        r.viol("C15|read:%s|%s|%s" % (path, calcls(coeff, origin), kind),
               "%s with coefficients %r origin %r on %s data: got %r (%s), expected %r (%s)" % (
                   path, coeff, origin, dt, g.tolist(), g.dtype, np.asarray(exp).tolist(), np.asarray(exp).dtype),
               {"coeff": coeff, "origin": origin, "dtype": dt})
        return False
    return True


def run_product(case, r):
    s = S()
    try:
        raw0 = np.array([-1.5, 0.0, 2.25, 8.0])
        da = s.b.create_data_array("d", "t", data=raw0)
        n = case["n"]
        lists = [[]] if n == 0 else [[case["first"]] + list(t) for t in itertools.product(COEFF_ALPHA, repeat=n - 1)]
        for coeff in lists:
            for origin in ORIGINS:
                da.polynom_coefficients = coeff
                da.expansion_origin = origin
                got = da[:]
                if not check_read(r, "whole", got, raw0, coeff, origin, "float64"):
                    return
                # attributes read back
                pc = list(da.polynom_coefficients)
                eo = da.expansion_origin
                if pc != [float(c) for c in coeff] or (eo != origin):
                    r.viol("C15|attr-readback|%s" % calcls(coeff, origin),
                           "calibration attributes read back %r / %r after setting %r / %r" % (pc, eo, coeff, origin), {})
                    return
        raw = s.raw()
        r.evals += 1
        if raw.tobytes() != raw0.tobytes():
            r.viol("C15|raw-changed|product", "stored raw values changed after setting calibrations: %r" % raw.tolist(), {})
    finally:
        s.close()


def index_alphabet(shape):
    per_axis = []
    for n in shape:
        per_axis.append([0, n - 1, -1, slice(None), slice(0, 1), slice(1, None), slice(None, None, 2)])
    out = [slice(None), Ellipsis]
    for k in range(1, len(shape) + 1):
        out += list(itertools.product(*per_axis[:k]))
    return out


def run_paths(case, r):
    dt, shape = case["dtype"], tuple(case["shape"])
    s = S()
    try:
        raw0 = values_for(dt, shape)
        da = s.b.create_data_array("d", "t", data=raw0)
        for coeff, origin in CALS:
            da.polynom_coefficients = coeff
            da.expansion_origin = origin
            ok = True
            ok = ok and check_read(r, "whole", da[:], raw0, coeff, origin, dt)
            ok = ok and check_read(r, "ellipsis", da[...], raw0, coeff, origin, dt)
            ok = ok and check_read(r, "np.array", np.array(da), raw0, coeff, origin, dt)
            active = bool(coeff) or bool(origin)
            buf = np.zeros(shape, dtype=np.float64 if active else dt)
            da.read_direct(buf)
            ok = ok and check_read(r, "read_direct", buf, raw0, coeff, origin, dt)
            rows = [np.asarray(x) for x in da]
            exp_rows = [raw0[i] for i in range(shape[0])]
            for i, (g, e) in enumerate(zip(rows, exp_rows)):
                ok = ok and check_read(r, "iteration", g, e, coeff, origin, dt)
            whole = np.asarray(da[:])
            for expr in index_alphabet(shape):
                got = da[expr]
                ok = ok and check_read(r, "index", got, raw0[expr], coeff, origin, dt)
                # slicing and calibration commute bit-exactly
                w = np.asarray(whole[expr])
                if w.ndim == 0:
                    w = w.reshape((1,))
                r.evals += 1
                if np.asarray(got).tobytes() != w.tobytes():
                    r.viol("C15|commute|%s" % calcls(coeff, origin),
                           "da[expr] differs bitwise from da[:][expr] for %s data shape %s expr %r" % (dt, shape, expr), {})
                    ok = False
            # views
            for starts, exts in ([[0] * len(shape), list(shape)], [[n - 1 for n in shape], [1] * len(shape)],
                                 [[0] * len(shape), [1] * len(shape)]):
                v = da.get_slice(starts, exts, nix.DataSliceMode.Index)
                win = tuple(slice(a, a + e) for a, e in zip(starts, exts))
                ok = ok and check_read(r, "view", v[:], raw0[win], coeff, origin, dt)
                ok = ok and check_read(r, "view-index", v[(0,) * len(shape)], raw0[win][(0,) * len(shape)], coeff, origin, dt)
                ok = ok and check_read(r, "view-array", np.array(v), raw0[win], coeff, origin, dt)
            raw = s.raw()
            r.evals += 1
            if raw.dtype != raw0.dtype or raw.tobytes() != raw0.tobytes():
                r.viol("C15|raw-changed|paths|%s" % calcls(coeff, origin),
                       "stored raw values of a %s array changed: %r" % (dt, raw.tolist()), {})
                ok = False
            if not ok:
                return
        # reopen: calibration persists, raw unchanged
        coeff, origin = CALS[-2]
        da.polynom_coefficients = coeff
        da.expansion_origin = origin
        s.f.close()
        s.f = nix.File.open(s.path, nix.FileMode.ReadOnly)
        da = s.f.blocks["b"].data_arrays["d"]
        check_read(r, "whole-after-reopen", da[:], raw0, coeff, origin, dt)
    finally:
        s.close()


HOPS = {
    "setA": lambda da: setattr(da, "polynom_coefficients", [1.0, 2.0]),
    "setB": lambda da: setattr(da, "polynom_coefficients", [0.5, 0.0, -2.0]),
    # integer-valued settings first: a later fractional value must not be truncated to the stored type
    "setI": lambda da: setattr(da, "polynom_coefficients", (2, 3)),
    "setOi": lambda da: setattr(da, "expansion_origin", 3),
    "clearC": lambda da: setattr(da, "polynom_coefficients", None),
    "setO": lambda da: setattr(da, "expansion_origin", 2.5),
    "clearO": lambda da: setattr(da, "expansion_origin", None),
}
HMODEL = {"setI": ("c", [2.0, 3.0]), "setOi": ("o", 3.0), "setA": ("c", [1.0, 2.0]), "setB": ("c", [0.5, 0.0, -2.0]), "clearC": ("c", []), "setO": ("o", 2.5),
          "clearO": ("o", None)}


def run_hist(case, r):
    dt = case["dtype"]
    s = S()
    try:
        raw0 = values_for(dt, (2, 2))
        da = s.b.create_data_array("d", "t", data=raw0)
        # a second, independently obtained handle and a view made from it are held for the whole run:
        # every setter goes through `da`, reads go through all of them (no per-handle state may matter)
        held = s.b.data_arrays["d"]
        held_view = held.get_slice([0, 0], [2, 2], nix.DataSliceMode.Index)
        for d in range(1, case["depth"] + 1):
            for rest in itertools.product(sorted(HOPS), repeat=d - 1):
                hist = (case["first"],) + rest
                # reset
                da.polynom_coefficients = None
                da.expansion_origin = None
                st = {"c": [], "o": None}
                ok = True
                for name in hist:
                    HOPS[name](da)
                    k, v = HMODEL[name]
                    st[k] = v
                    ok = ok and check_read(r, "second-handle", held[:], raw0, st["c"], st["o"], dt)
                    ok = ok and check_read(r, "held-view", held_view[:], raw0, st["c"], st["o"], dt)
                ok = ok and check_read(r, "whole-after-history", da[:], raw0, st["c"], st["o"], dt)
                raw = s.raw()
                r.evals += 1
                if raw.dtype != raw0.dtype or raw.tobytes() != raw0.tobytes():
                    r.viol("C15|raw-changed|history", "raw values changed after %r: %r" % (hist, raw.tolist()), {"hist": list(hist)})
                    ok = False
                if not ok:
                    return
    finally:
        s.close()


def run_big(case, r):
    """arrays that are NOT small (more elements than an 8/16-bit type has values, more than 131072 elements, several
    chunks), holding the extreme values of their type: whole reads, slices near the end, views, commutation"""
    dt, n = case["dtype"], case["n"]
    shape = (n,) if case.get("cols") is None else (n // case["cols"], case["cols"])
    s = S()
    try:
        raw0 = values_for(dt, shape)
        da = s.b.create_data_array("d", "t", data=raw0)
        for coeff, origin in (([1.5, 0.5, 0.25], 2.0), ([], 3.0), ([0.0, 1.0], None), ([2.0, -1.0], 0)):
            da.polynom_coefficients = coeff if coeff else None
            da.expansion_origin = origin
            exp = horner(raw0, coeff, origin)
            r.nontrivial += 1
            if not check_read(r, "big-whole", da[:], raw0, coeff, origin, dt):
                return
            last = tuple([slice(shape[0] - 7, shape[0])] + [slice(None)] * (len(shape) - 1))
            first = tuple([slice(0, 5)] + [slice(None)] * (len(shape) - 1))
            for nm, sl in (("big-slice-end", last), ("big-slice-start", first),
                           ("big-strided", tuple([slice(3, None, max(1, shape[0] // 9))] + [slice(None)] * (len(shape) - 1)))):
                if not check_read(r, nm, da[sl], raw0[sl], coeff, origin, dt):
                    return
            view = da.get_slice([1] + [0] * (len(shape) - 1), [shape[0] - 2] + list(shape[1:]), nix.DataSliceMode.Index)
            if not check_read(r, "big-view", view[:], raw0[1:shape[0] - 1], coeff, origin, dt):
                return
            buf = np.empty(shape, dtype=np.float64 if (coeff or origin) else dt)
            da.read_direct(buf)
            if not check_read(r, "big-read_direct", buf, raw0, coeff, origin, dt):
                return
        raw = s.raw()
        r.evals += 1
        if raw.dtype != raw0.dtype or raw.tobytes() != raw0.tobytes():
            r.viol("C15|raw-changed|big", "stored raw values of a %s array of %d elements changed" % (dt, n), {})
    finally:
        s.close()


def run_tags(case, r):
    dt = case["dtype"]
    s = S()
    try:
        raw0 = values_for(dt, (4,))
        da = s.b.create_data_array("d", "t", data=raw0)
        da.append_sampled_dimension(1.0)
        feat = s.b.create_data_array("feat", "t", data=values_for(dt, (4,))[::-1].copy())
        feat.append_sampled_dimension(1.0)
        fraw = s.raw("feat")
        tag = s.b.create_tag("tag", "t", [1.0])
        tag.extent = [2.0]
        tag.references.append(da)
        tag.create_feature(feat, nix.LinkType.Tagged)
        tag.create_feature(feat, nix.LinkType.Untagged)
        pos = s.b.create_data_array("pos", "t", data=np.array([0.0, 2.0]))
        pos.append_set_dimension()
        ext = s.b.create_data_array("ext", "t", data=np.array([1.0, 1.0]))
        ext.append_set_dimension()
        mt = s.b.create_multi_tag("mt", "t", pos)
        mt.extents = ext
        mt.references.append(da)
        mt.create_feature(feat, nix.LinkType.Indexed)
        mt.create_feature(feat, nix.LinkType.Tagged)
        for coeff, origin in CALS:
            for arr in (da, feat):
                arr.polynom_coefficients = coeff
                arr.expansion_origin = origin
            ok = True
            for rule, stop in ((nix.SliceMode.Exclusive, 3), (nix.SliceMode.Inclusive, 4)):
                ok = ok and check_read(r, "tag.tagged_data", tag.tagged_data(0, rule)[:], raw0[1:stop], coeff, origin, dt)
                ok = ok and check_read(r, "tag.feature_data-tagged", tag.feature_data(0, rule)[:], fraw[1:stop], coeff, origin, dt)
            ok = ok and check_read(r, "tag.feature_data-untagged", tag.feature_data(1)[:], fraw, coeff, origin, dt)
            for i, (a, b_) in enumerate(((0, 1), (2, 3))):
                ok = ok and check_read(r, "mtag.tagged_data", mt.tagged_data(i, 0)[:], raw0[a:b_], coeff, origin, dt)
                ok = ok and check_read(r, "mtag.feature_data-indexed", mt.feature_data(i, 0)[:], fraw[i:i + 1], coeff, origin, dt)
                ok = ok and check_read(r, "mtag.feature_data-tagged", mt.feature_data(i, 1)[:], fraw[a:b_], coeff, origin, dt)
            if not ok:
                return
    finally:
        s.close()


def run_case(case):
    r = R()
    {"product": run_product, "paths": run_paths, "hist": run_hist, "tags": run_tags, "big": run_big}[case["k"]](case, r)
    return r
