"""C01 - array data is stored and returned exactly (type, shape, values).

E1 + E2: element type x shape x creation path (product), then all histories of
length <= d over {whole write, region assignment, append along every axis,
resize, REOPEN} against a NumPy array + known-mask model, and the 27
file x block x array compression combinations.
"""
import itertools

import numpy as np

from mc import env
from mc.core import R
import nixio as nix
from nixio import Compression, DataType

LEVEL = "model_checking"
RULE = ("(A) 12 element types x every shape of rank 1..4 over extents {0,1,2,3} (rank 4: {0,1,2}) x 5 creation "
        "paths, read back in session and after reopen; (B) per (type, shape): all histories of length <= d over "
        "{whole write, assignment to every unit-step hyper-rectangle (rank<=2; corners/full above), int-index "
        "assignment, append of 0/1/2 slabs along every axis, grow/shrink of every axis by one, REOPEN ro/rw}; "
        "(C) 27 compression combinations x 2 ways of reaching the block; after every step every read form is "
        "compared with the model byte for byte (text as Python strings); non-trivial = history whose last "
        "operation changed the array; distinct by construction")
ASSUMPTIONS = [
    "a second file with the same block and array names (other content) stays open in the same process during every "
    "create / history case and must read unchanged at the end (state kept outside the File objects)",
    "cells that were never written (after a resize or shape-only creation) are 'unknown' and not compared",
    "writes use the array's own element type (cross-type conversion is HDF5's business)",
    "text never contains NUL (HDF5 limit)",
    "compression: only 'reads are unaffected' is asserted; the resolved filter is recorded in the evidence counters",
]
NUM = ["int8", "int16", "int32", "int64", "uint8", "uint16", "uint32", "uint64", "float32", "float64", "bool"]
ALL = NUM + ["text"]
PATHS = ["data", "data+dtype", "data+shape", "shape+write_direct", "shape+assign"]
CHUNK = 1
WALL_CAP = {"quick": 900, "thorough": 7200}


def tclass(dt):
    if dt == "text":
        return "text"
    k = np.dtype(dt).kind
    return {"i": "int", "u": "uint", "f": "float", "b": "bool"}[k]


def special_values(dt):
    if dt == "text":
        return ["", "a", "ünï", "long-" * 40, "日本", " ", "a/b", "x\ny"]
    d = np.dtype(dt)
    if d.kind in "iu":
        i = np.iinfo(d)
        return [i.min, i.max, 0, 1, i.max - 1, i.min + 1 if d.kind == "i" else 2, 7, 3]
    if d.kind == "f":
        f = np.finfo(d)
        return [np.nan, np.inf, -np.inf, -0.0, f.tiny / 4, f.max, -f.max, 1.5, f.eps, 0.0]
    return [True, False, True, True, False]


def pattern(dt, shape, off=0):
    size = int(np.prod(shape))
    sv = special_values(dt)
    vals = [sv[(i + off) % len(sv)] for i in range(size)]
    if dt == "text":
        a = np.empty(size, dtype=object)
        for i, v in enumerate(vals):
            a[i] = v
        return a.reshape(shape)
    with np.errstate(all="ignore"):
        return np.array(vals, dtype=dt).reshape(shape)


def nix_dtype(dt):
    return DataType.String if dt == "text" else np.dtype(dt).type


def shapes_all():
    out = []
    for rank in (1, 2, 3):
        out += list(itertools.product((0, 1, 2, 3), repeat=rank))
    out += list(itertools.product((0, 1, 2), repeat=4))
    return out


def shapes_hist(tier):
    s = [(1,), (2,), (3,), (0,), (1, 1), (2, 2), (2, 1), (0, 2), (2, 0), (1, 2, 2), (2, 1, 1), (0, 1, 2)]
    if tier == "thorough":
        s += [(3, 2), (2, 3), (3, 3), (2, 2, 2), (1, 1, 1, 2), (2, 1, 2, 1), (1, 0, 1, 1)]
    return s


def BOUNDS(tier):
    return {"creation": {"types": 12, "shapes": len(shapes_all()), "paths": len(PATHS)},
            "histories": {"types": 12 if tier == "thorough" else "12 at depth 1, 5 at depth 2",
                          "shapes": [list(s) for s in shapes_hist(tier)], "depth": 3 if tier == "thorough" else 2},
            "compression": "27 combinations x 2 block handles x 3 types"}


def cases(tier):
    for dt in ALL:
        for rank in (1, 2, 3, 4):
            yield {"k": "create", "dtype": dt, "rank": rank}
    for dt in ALL:
        for shp in shapes_hist(tier):
            if tier == "thorough":
                # depth 3 for rank 1 (every type) and for rank 2 with five types; depth 2 otherwise (a full depth-3
                # run over all 19 shapes x 12 types did not finish within the two-hour cap: 148 of 351 cases)
                d = 3 if (len(shp) == 1 or (len(shp) == 2 and dt in ("int16", "float64", "bool", "text", "uint64"))) else 2
            else:
                d = 2 if dt in ("int16", "float64", "bool", "text", "uint64") else 1
            yield {"k": "hist", "dtype": dt, "shape": list(shp), "depth": d}
    for dt in ("float64", "int32", "text"):
        yield {"k": "compr", "dtype": dt}
    for dt in (ALL if tier == "thorough" else ("float64", "int16", "uint8", "bool", "text")):
        for shp in ([1200], [300, 5], [40, 9, 4], [7, 1300], [9, 31, 37]):
            yield {"k": "big", "dtype": dt, "shape": shp}
    for dt in ("int32", "text") if tier == "quick" else ALL:
        yield {"k": "big", "dtype": dt, "shape": [8193]}


# ---------------------------------------------------------------- model

class M:
    def __init__(self, arr, known=True):
        self.a = arr
        self.m = np.full(arr.shape, known, dtype=bool)
        self.text = arr.dtype == object

    def resize(self, newshape):
        new = np.empty(newshape, dtype=self.a.dtype)
        if self.text:
            new[...] = ""
        else:
            new[...] = 0
        mask = np.zeros(newshape, dtype=bool)
        sl = tuple(slice(0, min(a, b)) for a, b in zip(self.a.shape, newshape))
        new[sl] = self.a[sl]
        mask[sl] = self.m[sl]
        self.a, self.m = new, mask

    def append(self, block, axis):
        self.a = np.concatenate([self.a, block], axis=axis)
        self.m = np.concatenate([self.m, np.ones(block.shape, dtype=bool)], axis=axis)


def eq_known(got, model):
    """got equals model on known cells, byte for byte (text: string equality)"""
    got = np.asarray(got)
    if got.shape != model.a.shape:
        return "shape %s != %s" % (got.shape, model.a.shape)
    if model.text:
        for idx in np.ndindex(*model.a.shape):
            if model.m[idx] and not (isinstance(got[idx], str) and got[idx] == model.a[idx]):
                return "text element %s is %r, expected %r" % (idx, got[idx], model.a[idx])
        return None
    if got.dtype != model.a.dtype:
        return "dtype %s != %s" % (got.dtype, model.a.dtype)
    g = np.ascontiguousarray(got)
    e = np.ascontiguousarray(model.a)
    if model.m.all():
        if g.tobytes() != e.tobytes():
            bad = [idx for idx in np.ndindex(*e.shape) if g[idx].tobytes() != e[idx].tobytes()][:3]
            return "values differ at %s: got %r, expected %r" % (bad, [g[i].item() for i in bad], [e[i].item() for i in bad])
        return None
    for idx in np.ndindex(*e.shape):
        if model.m[idx] and g[idx].tobytes() != e[idx].tobytes():
            return "value at %s is %r, expected %r" % (idx, g[idx].item(), e[idx].item())
    return None


def verify(r, da, model, dt, opk, stage):
    """every read form; returns True if all agree"""
    tc = tclass(dt)

    def bad(check, msg):
        r.viol("C01|%s|%s|%s|%s" % (tc, opk, stage, check), "%s array after %s (%s): %s" % (dt, opk, stage, msg),
               {"dtype": dt, "shape": list(model.a.shape)})
        return False
    shape = model.a.shape
    r.transitions += 1
    try:
        if tuple(da.shape) != shape:
            return bad("shape", "shape %s, expected %s" % (da.shape, shape))
        if tuple(da.data_extent) != shape:
            return bad("data_extent", "data_extent %s, expected %s" % (da.data_extent, shape))
        if len(da) != shape[0]:
            return bad("len", "len %s, expected %s" % (len(da), shape[0]))
        if int(da.size) != int(np.prod(shape)):
            return bad("size", "size %s, expected %s" % (da.size, int(np.prod(shape))))
        if dt == "text":
            if da.data_type != DataType.String:
                return bad("data_type", "data_type %r, expected String" % (da.data_type,))
        else:
            if np.dtype(da.dtype) != np.dtype(dt):
                return bad("dtype", "dtype %s, expected %s" % (da.dtype, dt))
            if np.dtype(da.data_type) != np.dtype(dt):
                return bad("data_type", "data_type %s, expected %s" % (da.data_type, dt))
        for name, fn in (("[...]", lambda: da[...]), ("[:]", lambda: da[:]), ("np.array", lambda: np.array(da))):
            got = fn()
            msg = eq_known(got, model)
            if msg:
                return bad("read" + name, "%s: %s" % (name, msg))
        if int(np.prod(shape)) > 0:
            buf = np.empty(shape, dtype=object if dt == "text" else dt)
            da.read_direct(buf)
            msg = eq_known(buf, model)
            if msg:
                return bad("read_direct", msg)
            if shape[0] > 1500:
                return True         # iteration element by element is only verified up to 1500 rows
            rows = [np.asarray(x) for x in da]
            if len(rows) != shape[0]:
                return bad("iteration", "iteration yields %d rows" % len(rows))
            for i, row in enumerate(rows):
                sshape = model.a.shape[1:] or (1,)
                sub = M(model.a[i:i + 1].reshape(sshape))
                sub.m = model.m[i:i + 1].reshape(sshape)
                msg = eq_known(row, sub)
                if msg:
                    return bad("iteration", "row %d: %s" % (i, msg))
    except Exception as e:  # noqa
        return bad("raises-" + type(e).__name__, "reading raises %s: %s" % (type(e).__name__, str(e)[:120]))
    return True


# ---------------------------------------------------------------- creation

def create(b, name, dt, shape, path, compression=Compression.Auto):
    data = pattern(dt, shape)
    nd = nix_dtype(dt)
    if path == "data":
        if dt == "text":
            da = b.create_data_array(name, "t", data=data, dtype=nd, compression=compression)
        else:
            da = b.create_data_array(name, "t", data=data, compression=compression)
    elif path == "data+dtype":
        da = b.create_data_array(name, "t", dtype=nd, data=data, compression=compression)
    elif path == "data+shape":
        da = b.create_data_array(name, "t", dtype=nd if dt == "text" else None, shape=tuple(shape), data=data,
                                 compression=compression)
    elif path == "shape+write_direct":
        da = b.create_data_array(name, "t", dtype=nd, shape=tuple(shape), compression=compression)
        da.write_direct(data)
    else:
        da = b.create_data_array(name, "t", dtype=nd, shape=tuple(shape), compression=compression)
        da[:] = data
    return da, M(data)


TWIN_N = 40


class Twin:
    """A second file that stays open in the same process, with the same block and array names as the
    file under test but other content (float32 [-7, -8, -9]).  State the library keeps outside its
    File objects (anything keyed by names or HDF5 paths) then shows up either as a wrong read in the
    file under test or as a change of the twin."""

    def __init__(self, prefix):
        self.path = env.fresh_path("c01twin_")
        self.f = nix.File.open(self.path, nix.FileMode.Overwrite)
        b = self.f.create_block("b", "t")
        self.ref = np.array([-7, -8, -9], dtype=np.float32)
        self.names = ["%s%d" % (prefix, k) for k in range(1, TWIN_N + 1)]
        for nm in self.names:
            b.create_data_array(nm, "t", data=self.ref)
        self.check(None)          # read everything once

    def check(self, r):
        b = self.f.blocks["b"]
        for nm in self.names:
            da = b.data_arrays[nm]
            got = da[:]
            ok = got.dtype == self.ref.dtype and got.shape == self.ref.shape and got.tobytes() == self.ref.tobytes() \
                and tuple(da.shape) == (3,)
            if r is not None:
                r.transitions += 1
            if not ok:
                if r is not None:
                    r.viol("C01|second-open-file|array-of-the-same-name-changed",
                           "array %s of ANOTHER file open in the same process (same block and array names) now reads "
                           "%r (%s), it was written once as %r" % (nm, got, got.dtype, self.ref), {"array": nm})
                return False
        return True

    def close(self):
        env.safe_close(self.f)
        env.rm(self.path)


class Sess:
    def __init__(self, twin=None, **kw):
        env.install_seams()
        env.reset_execution()
        self.twin = Twin(twin) if twin else None
        self.path = env.fresh_path("c01_")
        self.f = nix.File.open(self.path, nix.FileMode.Overwrite, **kw)
        self.b = self.f.create_block("b", "t")

    def reopen(self, mode):
        self.f.close()
        self.f = nix.File.open(self.path, nix.FileMode.ReadOnly if mode == "ro" else nix.FileMode.ReadWrite)
        self.b = self.f.blocks["b"]

    def close(self, r=None):
        if self.twin is not None:
            try:
                if r is not None:
                    self.twin.check(r)
            finally:
                self.twin.close()
        env.safe_close(self.f)
        env.rm(self.path)


def run_create(case, r):
    dt, rank = case["dtype"], case["rank"]
    ext = (0, 1, 2, 3) if rank < 4 else (0, 1, 2)
    s = Sess(twin="a")
    try:
        made = []
        k = 0
        for shape in itertools.product(ext, repeat=rank):
            for path in PATHS:
                k += 1
                name = "a%d" % k
                r.evals += 1
                r.nontrivial += 1
                opk = "create:" + path + (":empty" if 0 in shape else "")
                try:
                    da, model = create(s.b, name, dt, shape, path)
                except Exception as e:  # noqa
                    r.viol("C01|%s|%s|create|raises-%s" % (tclass(dt), opk, type(e).__name__),
                           "creating a %s array of shape %s via %s raises %s: %s" % (dt, shape, path, type(e).__name__, str(e)[:120]),
                           {"dtype": dt, "shape": list(shape), "path": path})
                    r.outcomes.add("create-raises")
                    continue
                r.outcomes.add("created:%s" % path)
                if verify(r, da, model, dt, opk, "in-session"):
                    made.append((name, model, opk))
        for mode in ("ro", "rw"):
            s.reopen(mode)
            for name, model, opk in made:
                r.evals += 1
                verify(r, s.b.data_arrays[name], model, dt, opk, "after-reopen-" + mode)
    finally:
        s.close(r)


# ---------------------------------------------------------------- histories

def regions(shape):
    rank = len(shape)
    if any(n == 0 for n in shape):
        return []
    if rank <= 2:
        per_axis = [[(a, b) for a in range(n) for b in range(a + 1, n + 1)] for n in shape]
        return [tuple(slice(a, b) for a, b in t) for t in itertools.product(*per_axis)]
    return [tuple(slice(0, 1) for _ in shape), tuple(slice(n - 1, n) for n in shape),
            tuple(slice(0, n) for n in shape), tuple(slice(0, 1) if i == 0 else slice(0, n) for i, n in enumerate(shape))]


def enabled_ops(shape):
    ops = [("write",), ("write_direct",)] if all(n > 0 for n in shape) else []
    for reg in regions(shape):
        ops.append(("assign", [[s_.start, s_.stop] for s_ in reg]))
    if shape[0] > 0:
        ops.append(("assign_int", 0))
        ops.append(("assign_int", -1))
    for ax in range(len(shape)):
        for k in (0, 1, 2):
            ops.append(("append", ax, k))
        ops.append(("resize", ax, 1))
        if shape[ax] > 0:
            ops.append(("resize", ax, -1))
    # the axis given the NumPy way (counted from the end), and an axis the array does not have
    for ax in range(len(shape)):
        for k in (1, 2):
            ops.append(("append_negaxis", ax, k))
    ops.append(("append_noaxis",))
    ops.append(("reopen", "ro"))
    ops.append(("reopen", "rw"))
    return ops


def model_shape_after(shape, op):
    shape = list(shape)
    if op[0] == "append":
        shape[op[1]] += op[2]
    elif op[0] in ("append_negaxis", "append_noaxis"):
        pass        # refused or NumPy semantics: histories are not extended beyond these (see gen_hist)
    elif op[0] == "resize":
        shape[op[1]] += op[2]
    return tuple(shape)


def gen_hist(shape, depth):
    out = []

    def go(shape, hist, ro):
        if len(hist) >= depth:
            return
        for op in enabled_ops(shape):
            if ro and op[0] != "reopen":
                continue
            h2 = hist + [op]
            out.append(h2)
            if op[0] in ("append_negaxis", "append_noaxis"):
                continue        # both outcomes are legal, so the shape afterwards is not known here
            go(model_shape_after(shape, op), h2, op == ("reopen", "ro") or (ro and op[0] != "reopen"))
    go(tuple(shape), [], False)
    return out


def apply_op(s, name, da, model, dt, op, counter):
    """returns (da, changed)"""
    if op[0] == "write":
        data = pattern(dt, model.a.shape, counter)
        da[:] = data
        model.a, model.m = data.copy(), np.ones(data.shape, dtype=bool)
    elif op[0] == "write_direct":
        data = pattern(dt, model.a.shape, counter + 1)
        da.write_direct(data)
        model.a, model.m = data.copy(), np.ones(data.shape, dtype=bool)
    elif op[0] == "assign":
        reg = tuple(slice(a, b) for a, b in op[1])
        shp = model.a[reg].shape
        data = pattern(dt, shp, counter + 2)
        da[reg] = data
        model.a[reg] = data
        model.m[reg] = True
    elif op[0] == "assign_int":
        shp = model.a.shape[1:]
        data = pattern(dt, shp, counter + 3)
        if data.ndim == 0:
            data = data.reshape(())
            val = data.item() if dt != "text" else data[()]
            da[op[1]] = val
            model.a[op[1]] = val
        else:
            da[op[1]] = data
            model.a[op[1]] = data
        model.m[op[1]] = True
    elif op[0] == "append":
        shp = list(model.a.shape)
        shp[op[1]] = op[2]
        block = pattern(dt, shp, counter + 4)
        da.append(block, axis=op[1])
        model.append(block, op[1])
    elif op[0] == "append_negaxis":
        # axis counted from the end: either refused (nothing changes) or it means what it means in NumPy
        shp = list(model.a.shape)
        shp[op[1]] = op[2]
        block = pattern(dt, shp, counter + 5)
        try:
            da.append(block, axis=op[1] - len(shp))
        except Exception:
            return da
        model.append(block, op[1])
    elif op[0] == "append_noaxis":
        # an axis the array does not have (a block of the array's own shape): refused, or nothing changes
        block = pattern(dt, model.a.shape, counter + 6)
        try:
            da.append(block, axis=len(model.a.shape))
        except Exception:
            return da
    elif op[0] == "resize":
        shp = list(model.a.shape)
        shp[op[1]] += op[2]
        da.data_extent = tuple(shp)
        model.resize(tuple(shp))
    elif op[0] == "reopen":
        s.reopen(op[1])
        da = s.b.data_arrays[name]
    return da


def opkind(op):
    if op[0] == "append":
        return "append:k%d" % op[2]
    if op[0] == "resize":
        return "resize:%s" % ("grow" if op[2] > 0 else "shrink")
    if op[0] == "reopen":
        return "reopen-" + op[1]
    return op[0]


def run_hist(case, r):
    dt, shape, depth = case["dtype"], tuple(case["shape"]), case["depth"]
    s = Sess(twin="h")
    try:
        hists = gen_hist(shape, depth)
        pending = []
        k = 0
        for hist in hists:
            k += 1
            name = "h%d" % k
            r.evals += 1
            if s.f.mode == nix.FileMode.ReadOnly:
                s.reopen("rw")
            try:
                da, model = create(s.b, name, dt, shape, "data" if 0 not in shape else "shape+assign")
            except Exception:
                r.bump("creation_failed_reported_by_create_case")
                return
            ok = True
            # two independently obtained handles, used alternately; every read must agree through both
            hnd = [da, s.b.data_arrays[name]]
            for i, op in enumerate(hist):
                last = i == len(hist) - 1
                nv = len(r.violations)
                before = (model.a.copy(), model.m.copy())
                try:
                    res = apply_op(s, name, hnd[i % 2], model, dt, op, k + i)
                    if op[0] == "reopen":
                        hnd = [res, s.b.data_arrays[name]]
                    da = hnd[i % 2]
                except Exception as e:  # noqa
                    if last:
                        r.viol("C01|%s|%s|raises-%s" % (tclass(dt), opkind(op), type(e).__name__),
                               "%s array of shape %s: %r raises %s: %s" % (dt, before[0].shape, op, type(e).__name__, str(e)[:100]),
                               {"hist": hist})
                    else:
                        r.bump("pruned_after_earlier_violation")
                    ok = False
                    break
                r.transitions += 1
                if not (verify(r, da, model, dt, opkind(op), "in-session") and
                        verify(r, hnd[(i + 1) % 2], model, dt, opkind(op), "other-handle")):
                    if not last:
                        del r.violations[nv:]
                        r.bump("pruned_after_earlier_violation")
                    ok = False
                    break
            if ok:
                r.outcomes.add("ok:" + opkind(hist[-1]))
                r.nontrivial += 1
                r.traces += 1
                pending.append((name, model, opkind(hist[-1])))
            if len(pending) >= 60 or hist is hists[-1]:
                for mode in ("ro", "rw"):
                    s.reopen(mode)
                    for nm, mdl, opk in pending:
                        verify(r, s.b.data_arrays[nm], mdl, dt, opk, "after-reopen-" + mode)
                pending = []
    finally:
        s.close(r)


# ---------------------------------------------------------------- compression

COMPR = [Compression.Auto, Compression.No, Compression.DeflateNormal]


def run_compr(case, r):
    dt = case["dtype"]
    shape = (3, 40)
    for cf in COMPR:
        env.install_seams()
        env.reset_execution()
        path = env.fresh_path("c01c_")
        f = nix.File.open(path, nix.FileMode.Overwrite, compression=cf)
        try:
            made = []
            n = 0
            for cb in COMPR:
                n += 1
                b = f.create_block("b%d" % n, "t", compression=cb)
                for via in ("creation-handle", "container-handle"):
                    blk = b if via == "creation-handle" else f.blocks["b%d" % n]
                    for ca in COMPR:
                        name = "a-%s-%s" % (via, ca.name)
                        r.evals += 1
                        r.nontrivial += 1
                        da, model = create(blk, name, dt, shape, "data", compression=ca)
                        da.append(pattern(dt, (1, 40), 5), axis=0)
                        model.append(pattern(dt, (1, 40), 5), 0)
                        opk = "compression:%s/%s/%s" % (cf.name, cb.name, ca.name)
                        verify(r, da, model, dt, opk, "in-session")
                        filt = f._h5file["data/b%d/data_arrays/%s/data" % (n, name)].compression
                        r.bump("resolved_filter[%s/%s/%s via %s]=%s" % (cf.name, cb.name, ca.name, via, filt))
                        r.outcomes.add("filter:%s" % filt)
                        made.append(("b%d" % n, name, model, opk))
            f.close()
            f = nix.File.open(path, nix.FileMode.ReadOnly)
            for bn, name, model, opk in made:
                verify(r, f.blocks[bn].data_arrays[name], model, dt, opk, "after-reopen-ro")
        finally:
            env.safe_close(f)
            env.rm(path)


def run_big(case, r):
    """arrays that are NOT small: several HDF5 chunks, extents beyond 255 / 1024, appends and regions that cross
    chunk boundaries, shrinking and growing across them"""
    dt, shape = case["dtype"], tuple(case["shape"])
    for comp in (Compression.No, Compression.DeflateNormal):
        s = Sess(twin="h")
        try:
            name = "h1"
            da, model = create(s.b, name, dt, shape, "data", compression=comp)
            steps = []
            ax_len = shape[0]
            blk = (max(1, ax_len * 5 // 6),) + shape[1:]
            steps.append(("append", 0, blk))
            steps.append(("assign", tuple([slice(ax_len // 3, ax_len // 3 * 2)] + [slice(None)] * (len(shape) - 1))))
            if len(shape) > 1:
                steps.append(("append", 1, None))
            steps.append(("resize", 0, -(ax_len - 7)))
            steps.append(("resize", 0, ax_len))
            steps.append(("assign", tuple([slice(255, 257)] + [slice(None)] * (len(shape) - 1))))
            steps.append(("write",))
            steps.append(("reopen", "rw"))
            steps.append(("append", 0, (1,) + shape[1:]))
            k = 0
            for st in steps:
                k += 1
                r.evals += 1
                r.nontrivial += 1
                if st[0] == "append":
                    bshape = list(model.a.shape)
                    bshape[st[1]] = st[2][st[1]] if st[2] is not None else 3
                    block = pattern(dt, tuple(bshape), k)
                    da.append(block, axis=st[1])
                    model.append(block, st[1])
                elif st[0] == "assign":
                    shp = model.a[st[1]].shape
                    data = pattern(dt, shp, k + 7)
                    da[st[1]] = data
                    model.a[st[1]] = data
                    model.m[st[1]] = True
                elif st[0] == "resize":
                    shp = list(model.a.shape)
                    shp[st[1]] += st[2]
                    da.data_extent = tuple(shp)
                    model.resize(tuple(shp))
                elif st[0] == "write":
                    data = pattern(dt, model.a.shape, k + 11)
                    da[:] = data
                    model.a, model.m = data.copy(), np.ones(data.shape, dtype=bool)
                elif st[0] == "reopen":
                    s.reopen(st[1])
                    da = s.b.data_arrays[name]
                r.transitions += 1
                opk = "big:%s:%s" % (st[0], "gzip" if comp == Compression.DeflateNormal else "raw")
                if not verify(r, da, model, dt, opk, "in-session"):
                    return
            s.reopen("ro")
            verify(r, s.b.data_arrays[name], model, dt, "big:final", "after-reopen-ro")
            r.traces += 1
        finally:
            s.close(r)


def run_case(case):
    r = R()
    if case["k"] == "big":
        run_big(case, r)
        return r
    {"create": run_create, "hist": run_hist, "compr": run_compr}[case["k"]](case, r)
    return r
