"""C18 - format upgrade preserves content, is idempotent, resumable after interruption.

E3: a family of old-format files (crafted with raw h5py from library-written
files) x every interruption point between conversion steps (tasks and the
individual property / dimension conversions inside a task), followed by a
re-run; thorough: every pair of interruption points.  Interruptions are
injected through the nixio.cmd.upgrade.h5py module seam (the k-th write-open
raises).
"""
import hashlib
import io
import contextlib
import itertools
import shutil

import h5py
import numpy as np

from mc import env
from mc import walker
from mc.core import R, jhash
import nixio as nix
from nixio.cmd import upgrade as UP

LEVEL = "fault_enumeration"
RULE = ("old-format files: version in {1.0.0, 1.1.0 (compound properties), 1.1.1, 1.2.0 (plain properties)} x file id "
        "{absent, present} x section forests of <= 3 sections x 0..3 properties per section over {int,float,text,bool} x "
        "extras {none, uniform uncertainty, per-value uncertainty, reference, filename+encoder+checksum} x 0..2 alias "
        "range dimensions; for each file with N write steps: the uninterrupted run, every single interruption k in 1..N "
        "followed by a re-run (thorough: every pair k, j), upgrade of the upgraded file and of a current-format file; "
        "non-trivial = run with at least one interruption; distinct by construction")
ASSUMPTIONS = [
    "old-format files are crafted by the harness (library-written file, properties rewritten as compound datasets, "
    "dimension links rewritten as alias links, header rewritten) - probed: the library reads them read-only",
    "interruption = an exception raised when the upgrade code opens the file for writing the k-th time, i.e. between "
    "two conversion steps; torn writes inside one step are not modelled",
    "in an interrupted (half converted) state only the header version and the refusal of read-write opening are checked",
]
CHUNK = 2
WALL_CAP = {"quick": 900, "thorough": 7200}
VSTR = h5py.string_dtype()
LIBVER = (1, 2, 1)

PVALS = {"int": [2 ** 63 - 1, -2 ** 63, 5], "float": [1.5, -0.25, 1.7976931348623157e308], "text": ["a", "ü", "long text"], "bool": [True, False, True]}
FORESTS = [[("s", [])], [("s", [("s", [])])], [("s", []), ("Z", [])], [("s", [("a", []), ("s", [])])]]
EXTRAS = ["none", "uncertainty-uniform", "uncertainty-per-value", "uncertainty-tiny", "reference", "file-encoder-checksum", "mixed"]
TINY = [2e-11, 5e-11, 1e-11, 3e-11]
U64VALS = [2 ** 63 + 5, 7, 2 ** 64 - 1]
MIXED = ["reference", "none", "file-encoder-checksum", "uncertainty-per-value", "none"]


def sha(path):
    with open(path, "rb") as fh:
        return hashlib.sha256(fh.read()).hexdigest()


class Interrupt(Exception):
    pass


class H5Proxy:
    """stands in for the h5py module inside nixio.cmd.upgrade: counts write-opens, interrupts the k-th"""

    def __init__(self, stop_at=None):
        self.count = 0
        self.stop_at = stop_at

    def File(self, name, mode="r", **kw):
        if mode == "a":
            self.count += 1
            if self.stop_at is not None and self.count == self.stop_at:
                raise Interrupt("interrupted before write step %d" % self.count)
        return h5py.File(name, mode=mode, **kw)

    def __getattr__(self, item):
        return getattr(h5py, item)


def run_upgrade(path, stop_at=None):
    proxy = H5Proxy(stop_at)
    old = UP.h5py
    UP.h5py = proxy
    try:
        with contextlib.redirect_stdout(io.StringIO()):
            res = nix.file_upgrade(path)
    finally:
        UP.h5py = old
    return res, proxy.count


# ------------------------------------------------------------------ file family

def configs(tier):
    out = []
    vers = [(1, 0, 0), (1, 1, 0), (1, 1, 1), (1, 2, 0)]
    k = 0
    for ver in vers:
        for with_id in (False, True):
            for fi, forest in enumerate(FORESTS):
                for nprops in (0, 1, 3):
                    for extra in EXTRAS:
                        for nalias in (0, 1, 2):
                            compound = ver < (1, 1, 1)
                            if not compound and extra != "none":
                                continue
                            if nprops == 0 and extra != "none":
                                continue
                            k += 1
                            cfg = {"ver": list(ver), "id": with_id, "forest": fi, "nprops": nprops, "extra": extra, "nalias": nalias}
                            # quick: a covering sub-family (every value of every parameter, pairs with version)
                            if tier == "quick" and not (k % 5 == 0 or (nprops == 3 and nalias == 2 and fi in (1, 3))):
                                continue
                            out.append(cfg)
    return out


def BOUNDS(tier):
    return {"files": len(configs(tier)), "interruptions": "every single k" + (" and every pair (k, j)" if tier == "thorough" else "")}


def cases(tier):
    for cfg in configs(tier):
        yield {"k": "file", "cfg": cfg, "pairs": tier == "thorough"}
    # old files that are NOT small: 132 properties (44 per section, three sections), large integer values
    for ver in ([1, 0, 0], [1, 1, 0]) if tier == "thorough" else ([1, 0, 0],):
        for extra in ("mixed", "none"):
            yield {"k": "file", "cfg": {"ver": ver, "id": False, "forest": 3, "nprops": 44, "extra": extra, "nalias": 1, "many": True}, "pairs": False, "dense": tier == "thorough"}
    yield {"k": "current"}


def build(path, cfg):
    """library-written file with the intended content; returns the content snapshot"""
    env.install_seams()
    env.reset_execution()
    f = nix.File.open(path, nix.FileMode.Overwrite)
    snap = {"props": {}, "arrays": {}}
    types = ["int", "float", "text", "bool"]
    counter = [0]

    def mk(parent, forest, prefix):
        for name, sub in forest:
            sec = parent.create_section(name, "sectype")
            sec.definition = "sec " + name
            for i in range(cfg["nprops"]):
                t = types[(counter[0] + i) % 4]
                pname = "p%d%s" % (i, t)
                vals = PVALS[t][: 1 + (counter[0] + i) % 3]
                p = sec.create_property(pname, list(vals))
                if i % 2 == 0:
                    p.unit = "mV"
                    p.definition = "def of " + pname
                snap["props"][prefix + "/" + name + "/" + pname] = {"values": list(vals), "unit": "mV" if i % 2 == 0 else None,
                                                                  "definition": "def of " + pname if i % 2 == 0 else None, "type": t}
            if cfg.get("many"):
                # an unsigned 64-bit property whose values do not fit into int64 (the library cannot write such values
                # itself: the old dataset is crafted in to_old)
                sec.create_property("p9uint", nix.DataType.UInt64)
                snap["props"][prefix + "/" + name + "/p9uint"] = {"values": list(U64VALS), "unit": None, "definition": None, "type": "uint"}
            counter[0] += 1
            mk(sec, sub, prefix + "/" + name)
    mk(f, FORESTS[cfg["forest"]], "")
    b = f.create_block("blk", "t")
    plain = b.create_data_array("plain", "t", data=np.arange(6.0).reshape(2, 3), unit="mV")
    plain.append_set_dimension(["x", "y"])
    plain.append_sampled_dimension(0.5, unit="ms", offset=1.0)
    snap["arrays"]["plain"] = {"data": plain[:].tolist(), "dims": [("set", ["x", "y"]), ("sampled", 0.5, "ms", 1.0)]}
    for i in range(cfg["nalias"]):
        data = np.array([0.5, 1.0, 2.5]) * (i + 1)
        da = b.create_data_array("evt%d" % i, "t", data=data, unit="ms", label="time%d" % i)
        da.append_range_dimension_using_self()
        snap["arrays"]["evt%d" % i] = {"data": data.tolist(), "alias": {"ticks": data.tolist(), "unit": "ms", "label": "time%d" % i}}
    f.close()
    return snap


def extra_of(cfg, pname):
    """the extras variant of one property ('mixed': it differs from property to property)"""
    if cfg["extra"] != "mixed":
        return cfg["extra"]
    return MIXED[int(pname[1]) % len(MIXED)]


def extras_for(extra, n, i):
    unc, ref, fn, enc, chk = 0.0, "", "", "", ""
    if extra == "uncertainty-uniform":
        unc = 0.5
    elif extra == "uncertainty-per-value":
        unc = 0.1 * (i + 1)
    elif extra == "uncertainty-tiny":
        unc = TINY[i % len(TINY)]          # different for every value, all far below 1e-8
    elif extra == "reference":
        ref = "ref%d" % i
    elif extra == "file-encoder-checksum":
        fn, enc, chk = "file%d" % i, "enc%d" % i, "sum%d" % i
    return unc, ref, fn, enc, chk


def to_old(path, cfg):
    ver = tuple(cfg["ver"])
    with h5py.File(path, "a") as h:
        if ver < (1, 1, 1):
            props = []

            def find(name, obj):
                if isinstance(obj, h5py.Dataset) and "/properties/" in "/" + name:
                    props.append(name)
            h["metadata"].visititems(find)
            for name in props:
                ds = h["metadata"][name]
                vals = ds[()]
                if name.endswith("/p9uint"):
                    vals = np.array(U64VALS, dtype=np.uint64)
                attrs = dict(ds.attrs)
                vdt = VSTR if ds.dtype.kind == "O" else (np.dtype("uint64") if name.endswith("/p9uint") else ds.dtype)
                cdt = np.dtype([("value", vdt), ("uncertainty", "f8"), ("reference", VSTR), ("filename", VSTR),
                                ("encoder", VSTR), ("checksum", VSTR)])
                arr = np.zeros(len(vals), dtype=cdt)
                for i, v in enumerate(vals):
                    arr[i] = (v,) + extras_for(extra_of(cfg, name.split("/")[-1]), len(vals), i)
                parent = ds.parent
                nm = name.split("/")[-1]
                del parent[nm]
                nd = parent.create_dataset(nm, data=arr, chunks=True, maxshape=(None,))
                for k, v in attrs.items():
                    nd.attrs[k] = v
        for blk in h["data"].values():
            for arr in blk.get("data_arrays", {}).values():
                for dim in arr.get("dimensions", {}).values():
                    if "link" in dim:
                        daid = arr.attrs["entity_id"]
                        del dim["link"]
                        dim[daid] = arr
        h.attrs["version"] = np.array(ver, dtype=np.int32)
        if cfg["id"]:
            h.attrs["id"] = "12345678-1234-4234-8234-123456789abc"
        elif "id" in h.attrs:
            del h.attrs["id"]


def raw_version(path):
    with h5py.File(path, "r") as h:
        return tuple(int(x) for x in h.attrs["version"])


def normalized_walk(path):
    f = nix.File.open(path, nix.FileMode.ReadWrite)
    try:
        w = walker.walk(f, core=True)
    finally:
        f.close()

    def norm(t):
        if isinstance(t, dict):
            t = {k: norm(v) for k, v in t.items() if k not in ("created_at", "updated_at")}
            if t.get("$k") == "Section":
                t["props"] = sorted(t["props"], key=lambda p: p.get("name") or "")
            return t
        if isinstance(t, list):
            return [norm(x) for x in t]
        return t
    return walker.canon(norm(w))


def veq(a, b):
    if isinstance(b, bool):
        return isinstance(a, (bool, np.bool_)) and bool(a) == b
    if isinstance(b, float):
        return isinstance(a, (float, np.floating)) and float(a) == b
    if isinstance(b, int):
        return isinstance(a, (int, np.integer)) and not isinstance(a, (bool, np.bool_)) and int(a) == b
    return a == b


def check_content(r, path, cfg, snap, stage):
    """everything reads as before the upgrade; extras are retrievable"""
    cls = "v%s|%s" % (".".join(map(str, cfg["ver"])), cfg["extra"])

    def bad(what, msg):
        r.viol("C18|%s|%s|%s" % (stage, cls, what), "%s (%s): %s" % (stage, cls, msg), {"cfg": cfg})
        return False
    f = nix.File.open(path, nix.FileMode.ReadWrite)
    try:
        if tuple(int(x) for x in f.version) != LIBVER:
            return bad("version-not-raised", "version after upgrade %r" % (f.version,))
        if not nix.util.is_uuid(f.id):
            return bad("no-file-id", "file id after upgrade %r" % (f.id,))
        for key, exp in snap["props"].items():
            parts = key.strip("/").split("/")
            sec = f
            for nm in parts[:-1]:
                sec = sec.sections[nm]
            pname = parts[-1]
            if pname not in sec.props:
                return bad("property-lost", "property %s is gone" % key)
            p = sec.props[pname]
            vals = list(p.values)
            if len(vals) != len(exp["values"]) or not all(veq(a, b) for a, b in zip(vals, exp["values"])):
                return bad("property-values", "%s values %r, before %r" % (key, vals, exp["values"]))
            if p.unit != exp["unit"] or p.definition != exp["definition"]:
                return bad("property-unit-definition", "%s unit/definition %r/%r, before %r/%r" % (key, p.unit, p.definition, exp["unit"], exp["definition"]))
            n = len(exp["values"])
            if tuple(cfg["ver"]) < (1, 1, 1):
                ex = extra_of(cfg, pname)
                # exactly the expected derived properties, no others
                suffixes = {"uncertainty-per-value": [".uncertainty"] if n > 1 else [], "uncertainty-tiny": [".uncertainty"] if n > 1 else [],
                            "reference": [".reference"],
                            "file-encoder-checksum": [".filename", ".encoder", ".checksum"]}.get(ex, [])
                present = [q.name[len(pname):] for q in sec.props if q.name.startswith(pname + ".")]
                if sorted(present) != sorted(suffixes):
                    return bad("spurious-or-missing-extra-properties", "%s (%s): derived properties %r, expected %r" % (key, ex, sorted(present), sorted(suffixes)))
                if ex == "uncertainty-uniform":
                    if p.uncertainty != 0.5:
                        return bad("extra-uncertainty-lost", "%s uncertainty %r, before 0.5 for every value" % (key, p.uncertainty))
                elif ex in ("uncertainty-per-value", "uncertainty-tiny"):
                    want = [0.1 * (i + 1) for i in range(n)] if ex == "uncertainty-per-value" else [TINY[i % len(TINY)] for i in range(n)]
                    if n == 1:
                        got = [p.uncertainty]
                    else:
                        q = sec.props[pname + ".uncertainty"] if (pname + ".uncertainty") in sec.props else None
                        got = None if q is None else [float(x) for x in q.values]
                    if got is None or len(got) != n or not np.allclose(got, want, rtol=1e-12, atol=0.0):
                        return bad("extra-uncertainty-lost", "%s per-value uncertainties %r, before %r" % (key, got, want))
                elif ex == "reference":
                    q = sec.props[pname + ".reference"] if (pname + ".reference") in sec.props else None
                    if q is None or list(q.values) != ["ref%d" % i for i in range(n)]:
                        return bad("extra-reference-lost", "%s references %r" % (key, None if q is None else list(q.values)))
                elif ex == "file-encoder-checksum":
                    for suffix, pre in ((".filename", "file"), (".encoder", "enc"), (".checksum", "sum")):
                        q = sec.props[pname + suffix] if (pname + suffix) in sec.props else None
                        if q is None or list(q.values) != ["%s%d" % (pre, i) for i in range(n)]:
                            return bad("extra%s-lost" % suffix.replace(".", "-"), "%s%s %r" % (key, suffix, None if q is None else list(q.values)))
        secdefs_ok = all(s_.definition == "sec " + s_.name for s_ in f.find_sections())
        if not secdefs_ok:
            return bad("section-definition", "a section definition changed")
        b = f.blocks["blk"]
        for name, exp in snap["arrays"].items():
            da = b.data_arrays[name]
            if np.asarray(da[:]).tolist() != exp["data"]:
                return bad("array-data", "array %s data %r" % (name, np.asarray(da[:]).tolist()))
            if "alias" in exp:
                d = da.dimensions[0]
                if [float(x) for x in d.ticks] != exp["alias"]["ticks"] or d.unit != exp["alias"]["unit"] or d.label != exp["alias"]["label"]:
                    return bad("alias-dimension", "alias dimension of %s: ticks %r unit %r label %r" % (name, list(d.ticks), d.unit, d.label))
                if not d.has_link:
                    return bad("alias-not-converted", "alias dimension of %s has no link after the upgrade" % name)
            else:
                d0, d1 = da.dimensions[0], da.dimensions[1]
                if list(d0.labels) != ["x", "y"] or d1.sampling_interval != 0.5 or d1.unit != "ms" or d1.offset != 1.0:
                    return bad("array-descriptors", "descriptors of %s changed" % name)
    except Exception as e:  # noqa
        return bad("reading-raises-" + type(e).__name__, "reading the upgraded file raises %s: %s" % (type(e).__name__, str(e)[:120]))
    finally:
        env.safe_close(f)
    return True


def run_file(case, r):
    cfg = case["cfg"]
    base = env.fresh_path("c18base_")
    work = env.fresh_path("c18w_")
    ref = env.fresh_path("c18ref_")
    cls = "v%s|id-%s|%s" % (".".join(map(str, cfg["ver"])), "present" if cfg["id"] else "absent", cfg["extra"])
    try:
        snap = build(base, cfg)
        to_old(base, cfg)
        oldver = tuple(cfg["ver"])
        # old file: recognised as old, refused for writing
        r.evals += 1
        try:
            f = nix.File.open(base, nix.FileMode.ReadWrite)
            f.close()
            r.viol("C18|old-file|%s|opens-read-write" % cls, "an old-format file opens read-write", {"cfg": cfg})
            return
        except Exception:
            pass
        # uninterrupted run
        shutil.copyfile(base, ref)
        env.reset_execution()
        res, n = run_upgrade(ref)
        r.transitions += n
        if res is not True:
            r.viol("C18|uninterrupted|%s|returns-%r" % (cls, res), "uninterrupted upgrade returns %r" % (res,), {"cfg": cfg})
            return
        if UP.collect_tasks(ref)[0]:
            r.viol("C18|uninterrupted|%s|tasks-left" % cls, "collect_tasks after upgrade: %r" % [t.__doc__ for t in UP.collect_tasks(ref)[0]], {"cfg": cfg})
            return
        if not check_content(r, ref, cfg, snap, "uninterrupted"):
            return
        refwalk = normalized_walk(ref)
        r.states.add(jhash(refwalk))
        # upgrading the upgraded file changes nothing
        h0 = sha(ref)
        res2, _ = run_upgrade(ref)
        r.evals += 1
        if res2 is not True or sha(ref) != h0:
            r.viol("C18|idempotence|%s|second-upgrade-%s" % (cls, "changed-bytes" if res2 is True else "returned-%r" % res2),
                   "upgrading an upgraded file returned %r, bytes %s" % (res2, "changed" if sha(ref) != h0 else "unchanged"), {"cfg": cfg})
            return
        # every interruption point
        plans = [(k,) for k in range(1, n + 1)]
        if cfg.get("many"):
            # files with well over a hundred properties: interruption points around every tenth step and around 100 / 128
            keep = {1, 2, 50, 99, 100, 101, 128, 129, n - 1, n} if not case.get("dense") else set(range(1, n + 1, 5)) | {99, 100, 101, 127, 128, 129, n - 1, n}
            plans = [(k,) for k in range(1, n + 1) if k in keep]
        elif case["pairs"]:
            plans += [(k, j) for k in range(1, n + 1) for j in range(1, n - k + 3)]
        for plan in plans:
            shutil.copyfile(base, work)
            env.reset_execution()
            r.evals += 1
            r.nontrivial += 1
            ok = True
            for stop in plan:
                res, cnt = run_upgrade(work, stop_at=stop)
                r.transitions += cnt
                if res is True:
                    break      # fewer steps were left than the interruption index: completed
                v = raw_version(work)
                if v != oldver:
                    r.viol("C18|interrupted|%s|version-raised-before-completion" % cls,
                           "after an interruption at step %d of %d the header version is %r (file was %r)" % (stop, n, v, oldver), {"cfg": cfg, "plan": list(plan)})
                    ok = False
                    break
                try:
                    f = nix.File.open(work, nix.FileMode.ReadWrite)
                    f.close()
                    r.viol("C18|interrupted|%s|opens-read-write" % cls, "half-upgraded file opens read-write (plan %r)" % (plan,), {"cfg": cfg})
                    ok = False
                    break
                except Exception:
                    pass
            if not ok:
                return
            res, cnt = run_upgrade(work)
            r.transitions += cnt
            pcl = "single" if len(plan) == 1 else "double"
            r.outcomes.add("%s:%s" % (pcl, res))
            if res is not True:
                r.viol("C18|resume|%s|%s|rerun-returns-%r" % (cls, pcl, res), "re-run after interruption plan %r returns %r" % (plan, res), {"cfg": cfg, "plan": list(plan)})
                return
            if UP.collect_tasks(work)[0]:
                r.viol("C18|resume|%s|%s|tasks-left" % (cls, pcl), "tasks left after the re-run (plan %r)" % (plan,), {"cfg": cfg})
                return
            if not check_content(r, work, cfg, snap, "resumed-" + pcl):
                return
            w = normalized_walk(work)
            if w != refwalk:
                keys = walker.diff_keys(refwalk, w)
                r.viol("C18|resume|%s|%s|differs-from-uninterrupted:%s" % (cls, pcl, ",".join(keys[:2])[:100]),
                       "result of interruption plan %r + re-run differs from the uninterrupted upgrade: %s" % (
                           plan, "; ".join(walker.diff(refwalk, w, limit=3))), {"cfg": cfg, "plan": list(plan)})
                return
        r.traces += 1
    finally:
        for p in (base, work, ref):
            env.rm(p)


def run_current(case, r):
    from mc import seeds
    for builder in (seeds.build_mini, seeds.build_rich, None):
        path = env.fresh_path("c18cur_")
        env.install_seams()
        env.reset_execution()
        f = nix.File.open(path, nix.FileMode.Overwrite)
        if builder:
            builder(f)
        f.close()
        h0 = sha(path)
        res, cnt = run_upgrade(path)
        r.evals += 1
        r.nontrivial += 1
        if res is not True or sha(path) != h0 or cnt != 0:
            r.viol("C18|current-format|upgrade-not-a-noop", "upgrading an up-to-date file: returned %r, %d write opens, bytes %s" % (
                res, cnt, "changed" if sha(path) != h0 else "unchanged"), {})
        env.rm(path)
    r.outcomes.add("current")


def run_case(case):
    r = R()
    {"file": run_file, "current": run_current}[case["k"]](case, r)
    return r
