"""C12 - a refused operation leaves the file exactly as it was.

E3: fault catalogue (every public creating/mutating call x every class of
invalid argument it can receive) injected at every state reachable by valid
histories within the bound.  Oracle: if the call raises, the complete
introspective walk AND the raw HDF5 structure are identical before/after,
and the rejected name is still available for a valid call.
"""
import numpy as np

from mc import env
from mc import explorer, walker, rawdigest, ops as O
from mc.core import R, jhash
import nixio as nix

LEVEL = "fault_enumeration"
RULE = ("fault catalogue of ~120 (call site x invalid-argument class) instances (duplicate / invalid / empty name, empty "
        "type, missing or inconsistent shape/data/dtype, non-numeric or unordered values, wrong attribute type, bad link "
        "type, link target of wrong kind / foreign block / None, rank/shape/axis mismatch on append, mixed or wrong-type "
        "property values, out-of-range or unknown keys for delete/write, data frame length/column errors), injected at "
        "every state: seeds empty+block, mini, rich and every state reachable from mini by one valid operation; "
        "a fault is non-trivial when the call really raised; distinct (state, fault) pairs by construction")
ASSUMPTIONS = [
    "a call that is accepted (does not raise) is outside the property and only counted",
    "the catalogue is hand-enumerated from the public API; value classes are one representative per class",
]
CHUNK = 1
WALL_CAP = {"quick": 900, "thorough": 7200}
THIN = {"thin": True, "names": ["sig"], "nsecs": 1, "narr": 1, "nsrc": 1}


class Ctx:
    """handles to 'the first of each kind' in the current state (None if absent)"""

    def __init__(self, f):
        self.f = f
        bl = list(f.blocks)
        self.b = bl[0] if bl else None
        self.b2 = bl[1] if len(bl) > 1 else None
        b = self.b

        def first(c):
            try:
                return c[0] if c is not None and len(c) else None
            except Exception:
                return None
        self.da = first(b.data_arrays) if b else None
        self.da2 = b.data_arrays[1] if b and len(b.data_arrays) > 1 else None
        self.tag = first(b.tags) if b else None
        self.mtag = first(b.multi_tags) if b else None
        self.grp = first(b.groups) if b else None
        self.src = first(b.sources) if b else None
        self.df = first(b.data_frames) if b else None
        self.sec = first(f.sections)
        self.prop = first(self.sec.props) if self.sec is not None else None
        self.foreign = first(self.b2.data_arrays) if self.b2 else None
        self.foreign_src = first(self.b2.sources) if self.b2 else None
        self.dim = None
        self.rdim = None
        if self.da is not None:
            for d in self.da.dimensions:
                if self.dim is None:
                    self.dim = d
                if isinstance(d, nix.RangeDimension) and self.rdim is None:
                    self.rdim = d
        self.feat = first(self.tag.features) if self.tag is not None else None
        self.da9 = b.data_arrays["nine"] if (b is not None and "nine" in b.data_arrays) else None
        self.autonames = True if (b is not None and "newmt-positions" in b.data_arrays and "newmt-extents" in b.data_arrays) else None


def need(*names):
    def deco(fn):
        fn.needs = names
        return fn
    return deco


FAULTS = []


def fault(site, cls, *needs, retry=None):
    def deco(fn):
        FAULTS.append({"site": site, "cls": cls, "needs": needs, "fn": fn, "retry": retry})
        return fn
    return deco


A1 = np.array([1.0, 2.0])

# ---- file level
fault("File.create_block", "duplicate-name", "b")(lambda c: c.f.create_block(c.b.name, "t"))
fault("File.create_block", "slash-in-name", retry=lambda c: c.f.create_block("a_b", "t"))(lambda c: c.f.create_block("a/b", "t"))
fault("File.create_block", "empty-type", retry=lambda c: c.f.create_block("newblk", "t"))(lambda c: c.f.create_block("newblk", ""))
fault("File.create_block", "copy-from-wrong-kind", "sec")(lambda c: c.f.create_block("cp", "t", copy_from=c.sec))
fault("File.create_section", "duplicate-name", "sec")(lambda c: c.f.create_section(c.sec.name, "t"))
fault("File.create_section", "slash-in-name")(lambda c: c.f.create_section("a/b", "t"))
fault("File.create_section", "empty-name")(lambda c: c.f.create_section("", "t"))
fault("File.create_section", "empty-type", retry=lambda c: c.f.create_section("newsec", "t"))(lambda c: c.f.create_section("newsec", ""))
fault("File.blocks.__delitem__", "unknown-name")(lambda c: c.f.blocks.__delitem__("nope"))
fault("File.blocks.__delitem__", "index-out-of-range")(lambda c: c.f.blocks.__delitem__(99))
fault("File.sections.__delitem__", "wrong-kind", "b")(lambda c: c.f.sections.__delitem__(c.b))
# ---- block level creates
fault("Block.create_data_array", "duplicate-name", "b", "da")(lambda c: c.b.create_data_array(c.da.name, "t", data=A1))
fault("Block.create_data_array", "slash-in-name", "b")(lambda c: c.b.create_data_array("a/b", "t", data=A1))
fault("Block.create_data_array", "empty-name", "b")(lambda c: c.b.create_data_array("", "t", data=A1))
fault("Block.create_data_array", "empty-type", "b", retry=lambda c: c.b.create_data_array("newda", "t", data=A1))(lambda c: c.b.create_data_array("newda", "", data=A1))
fault("Block.create_data_array", "neither-shape-nor-data", "b", retry=lambda c: c.b.create_data_array("newda", "t", data=A1))(lambda c: c.b.create_data_array("newda", "t"))
fault("Block.create_data_array", "shape-differs-from-data", "b", retry=lambda c: c.b.create_data_array("newda", "t", data=A1))(lambda c: c.b.create_data_array("newda", "t", shape=(3,), data=A1))
fault("Block.create_data_array", "data-not-convertible-to-dtype", "b", retry=lambda c: c.b.create_data_array("newda", "t", data=A1))(lambda c: c.b.create_data_array("newda", "t", dtype=np.int32, data=["a", "b"]))
fault("Block.create_data_array", "unsupported-dtype", "b", retry=lambda c: c.b.create_data_array("newda", "t", data=A1))(lambda c: c.b.create_data_array("newda", "t", dtype=np.complex128, data=np.array([1j])))
fault("Block.create_data_array", "wrong-unit-type", "b", retry=lambda c: c.b.create_data_array("newda", "t", data=A1))(lambda c: c.b.create_data_array("newda", "t", data=A1, unit=5))
fault("Block.create_data_array", "wrong-label-type", "b", retry=lambda c: c.b.create_data_array("newda", "t", data=A1))(lambda c: c.b.create_data_array("newda", "t", data=A1, label=5))
fault("Block.create_data_array", "copy-from-wrong-kind", "b", "tag")(lambda c: c.b.create_data_array("cp", "t", copy_from=c.tag))
fault("Block.create_tag", "duplicate-name", "b", "tag")(lambda c: c.b.create_tag(c.tag.name, "t", [0.0]))
fault("Block.create_tag", "slash-in-name", "b")(lambda c: c.b.create_tag("a/b", "t", [0.0]))
fault("Block.create_tag", "empty-type", "b", retry=lambda c: c.b.create_tag("newtag", "t", [0.0]))(lambda c: c.b.create_tag("newtag", "", [0.0]))
fault("Block.create_tag", "non-numeric-position", "b", retry=lambda c: c.b.create_tag("newtag", "t", [0.0]))(lambda c: c.b.create_tag("newtag", "t", ["a"]))
fault("Block.create_multi_tag", "duplicate-name", "b", "mtag")(lambda c: c.b.create_multi_tag(c.mtag.name, "t", [1.0]))
fault("Block.create_multi_tag", "slash-in-name", "b")(lambda c: c.b.create_multi_tag("a/b", "t", [1.0]))
fault("Block.create_multi_tag", "empty-type", "b", retry=lambda c: c.b.create_multi_tag("newmt", "t", [1.0]))(lambda c: c.b.create_multi_tag("newmt", "", [1.0]))
fault("Block.create_multi_tag", "positions-none", "b", retry=lambda c: c.b.create_multi_tag("newmt", "t", [1.0]))(lambda c: c.b.create_multi_tag("newmt", "t", None))
fault("Block.create_multi_tag", "extents-not-convertible", "b", retry=lambda c: c.b.create_multi_tag("newmt", "t", [1.0]))(lambda c: c.b.create_multi_tag("newmt", "t", [1.0], extents=object()))
fault("Block.create_multi_tag", "auto-positions-name-taken", "b", "autonames")(lambda c: c.b.create_multi_tag("newmt", "t", [1.0]))
fault("Block.create_multi_tag", "auto-extents-name-taken", "b", "autonames", "da")(lambda c: c.b.create_multi_tag("newmt", "t", c.da, extents=[1.0]))
fault("Block.create_group", "duplicate-name", "b", "grp")(lambda c: c.b.create_group(c.grp.name, "t"))
fault("Block.create_group", "slash-in-name", "b")(lambda c: c.b.create_group("a/b", "t"))
fault("Block.create_group", "empty-type", "b", retry=lambda c: c.b.create_group("newgrp", "t"))(lambda c: c.b.create_group("newgrp", ""))
fault("Block.create_source", "duplicate-name", "b", "src")(lambda c: c.b.create_source(c.src.name, "t"))
fault("Block.create_source", "empty-name", "b")(lambda c: c.b.create_source("", "t"))
fault("Block.create_source", "empty-type", "b", retry=lambda c: c.b.create_source("newsrc", "t"))(lambda c: c.b.create_source("newsrc", ""))
fault("Source.create_source", "slash-in-name", "src")(lambda c: c.src.create_source("a/b", "t"))
fault("Source.create_source", "empty-type", "src", retry=lambda c: c.src.create_source("newsub", "t"))(lambda c: c.src.create_source("newsub", ""))
fault("Block.create_data_frame", "duplicate-name", "b", "df")(lambda c: c.b.create_data_frame(c.df.name, "t", col_dict={"a": int}))
fault("Block.create_data_frame", "slash-in-name", "b")(lambda c: c.b.create_data_frame("a/b", "t", col_dict={"a": int}))
fault("Block.create_data_frame", "no-column-information", "b", retry=lambda c: c.b.create_data_frame("newdf", "t", col_dict={"a": int}))(lambda c: c.b.create_data_frame("newdf", "t"))
fault("Block.create_data_frame", "names-without-types", "b", retry=lambda c: c.b.create_data_frame("newdf", "t", col_dict={"a": int}))(lambda c: c.b.create_data_frame("newdf", "t", col_names=["a", "b"]))
fault("Block.create_data_frame", "duplicate-column-names", "b", retry=lambda c: c.b.create_data_frame("newdf", "t", col_dict={"a": int}))(lambda c: c.b.create_data_frame("newdf", "t", col_names=["a", "a"], col_dtypes=[int, int]))
fault("Block.create_data_frame", "data-not-matching-columns", "b", retry=lambda c: c.b.create_data_frame("newdf", "t", col_dict={"a": int}))(lambda c: c.b.create_data_frame("newdf", "t", col_dict={"a": int, "b": float}, data=[(1,), (2,)]))
fault("Block.create_data_frame", "empty-type", "b", retry=lambda c: c.b.create_data_frame("newdf", "t", col_dict={"a": int}))(lambda c: c.b.create_data_frame("newdf", "", col_dict={"a": int}))
# ---- sections / properties
fault("Section.create_section", "duplicate-name", "sec")(lambda c: (c.sec.sections[0].name if len(c.sec.sections) else (_ for _ in ()).throw(LookupError("skip"))) and c.sec.create_section(c.sec.sections[0].name, "t"))
fault("Section.create_section", "slash-in-name", "sec")(lambda c: c.sec.create_section("a/b", "t"))
fault("Section.create_section", "empty-type", "sec", retry=lambda c: c.sec.create_section("newsub", "t"))(lambda c: c.sec.create_section("newsub", ""))
fault("Section.create_property", "duplicate-name", "sec", "prop")(lambda c: c.sec.create_property(c.prop.name, [1]))
fault("Section.create_property", "slash-in-name", "sec")(lambda c: c.sec.create_property("a/b", [1]))
fault("Section.create_property", "empty-name", "sec")(lambda c: c.sec.create_property("", [1]))
fault("Section.create_property", "empty-values-without-type", "sec", retry=lambda c: c.sec.create_property("newp", [1]))(lambda c: c.sec.create_property("newp", []))
fault("Section.create_property", "none-values", "sec", retry=lambda c: c.sec.create_property("newp", [1]))(lambda c: c.sec.create_property("newp", None))
fault("Section.create_property", "mixed-values", "sec", retry=lambda c: c.sec.create_property("newp", [1]))(lambda c: c.sec.create_property("newp", [1, "a"]))
fault("Section.create_property", "unsupported-value-type", "sec", retry=lambda c: c.sec.create_property("newp", [1]))(lambda c: c.sec.create_property("newp", [object()]))
fault("Section.create_property", "copy-from-wrong-kind", "sec")(lambda c: c.sec.create_property("cp", copy_from=c.sec))
fault("Section.__setitem__", "mixed-values", "sec", retry=lambda c: c.sec.__setitem__("newp", [1]))(lambda c: c.sec.__setitem__("newp", [1, "a"]))
fault("Section.__delitem__", "unknown-key", "sec")(lambda c: c.sec.__delitem__("nope"))
fault("Section.repository", "wrong-attr-type", "sec")(lambda c: setattr(c.sec, "repository", 5))
fault("Section.reference", "wrong-attr-type", "sec")(lambda c: setattr(c.sec, "reference", 5))
fault("Section.type", "none", "sec")(lambda c: setattr(c.sec, "type", None))
fault("Section.definition", "wrong-attr-type", "sec")(lambda c: setattr(c.sec, "definition", 5))
fault("Property.values", "other-type", "prop")(lambda c: setattr(c.prop, "values", ["a"] if not isinstance(c.prop.values[0] if len(c.prop.values) else 1, str) else [1]))
fault("Property.values", "mixed-types", "prop")(lambda c: setattr(c.prop, "values", [1, "a", True]))
fault("Property.extend_values", "other-type", "prop")(lambda c: c.prop.extend_values(["a"] if not isinstance(c.prop.values[0] if len(c.prop.values) else 1, str) else [1]))
fault("Property.extend_values", "mixed-types", "prop")(lambda c: c.prop.extend_values([1, 1.5]))
fault("Property.unit", "wrong-attr-type", "prop")(lambda c: setattr(c.prop, "unit", 5))
fault("Property.uncertainty", "wrong-attr-type", "prop")(lambda c: setattr(c.prop, "uncertainty", "x"))
fault("Property.definition", "wrong-attr-type", "prop")(lambda c: setattr(c.prop, "definition", 5))
fault("Property.odml_type", "not-an-odml-type", "prop")(lambda c: setattr(c.prop, "odml_type", "string"))
fault("Property.odml_type", "incompatible-with-values", "prop")(lambda c: setattr(c.prop, "odml_type", nix.OdmlType.Datetime if not isinstance(c.prop.values[0], str) else nix.OdmlType.Int))
# ---- arrays
fault("DataArray.append_range_dimension", "unordered-ticks", "da")(lambda c: c.da.append_range_dimension([3.0, 2.0, 1.0]))
fault("DataArray.append_range_dimension", "non-numeric-ticks", "da")(lambda c: c.da.append_range_dimension(["a", "b"]))
fault("DataArray.append_range_dimension", "wrong-unit-type", "da")(lambda c: c.da.append_range_dimension([1.0, 2.0], unit=5))
fault("DataArray.append_set_dimension", "non-string-labels", "da")(lambda c: c.da.append_set_dimension([1, 2]))
fault("DataArray.append_set_dimension", "labels-not-a-list", "da")(lambda c: c.da.append_set_dimension("abc"))
fault("DataArray.append_sampled_dimension", "non-numeric-interval", "da")(lambda c: c.da.append_sampled_dimension("x"))
fault("DataArray.append_sampled_dimension", "wrong-unit-type", "da")(lambda c: c.da.append_sampled_dimension(1.0, unit=5))
fault("DataArray.append_sampled_dimension", "non-numeric-offset", "da")(lambda c: c.da.append_sampled_dimension(1.0, offset="x"))
fault("DataArray.append_range_dimension_using_self", "no-vector-marker", "da")(lambda c: c.da.append_range_dimension_using_self([0] * len(c.da.shape)))
fault("DataArray.append_range_dimension_using_self", "wrong-length", "da")(lambda c: c.da.append_range_dimension_using_self([-1] + [0] * len(c.da.shape)))
fault("DataArray.append_range_dimension_using_self", "two-markers", "da")(lambda c: c.da.append_range_dimension_using_self([-1, -1] + [0] * (len(c.da.shape) - 2)) if len(c.da.shape) >= 2 else c.da.append_range_dimension_using_self([-2]))
fault("RangeDimension.link_data_array", "no-vector-marker", "rdim", "da")(lambda c: c.rdim.link_data_array(c.da, [0] * len(c.da.shape)))
fault("RangeDimension.link_data_array", "wrong-length", "rdim", "da")(lambda c: c.rdim.link_data_array(c.da, [-1] + [0] * len(c.da.shape)))
fault("RangeDimension.ticks", "unordered", "rdim")(lambda c: setattr(c.rdim, "ticks", [2.0, 1.0]))
fault("Dimension.label", "wrong-attr-type", "dim")(lambda c: setattr(c.dim, "label", 5))
fault("DataArray.append", "rank-mismatch", "da")(lambda c: c.da.append(np.zeros((1,) * (len(c.da.shape) + 1))))
fault("DataArray.append", "shape-mismatch", "da")(lambda c: c.da.append(np.zeros(tuple(n + 1 for n in c.da.shape)), axis=0) if len(c.da.shape) > 1 else c.da.append(np.zeros((2, 2))))
fault("DataArray.append", "bad-axis", "da")(lambda c: c.da.append(np.zeros(c.da.shape), axis=7))
fault("DataArray.__setitem__", "index-out-of-range", "da")(lambda c: c.da.__setitem__(99, 1))
fault("DataArray.__setitem__", "value-not-convertible", "da")(lambda c: c.da.__setitem__(0, "x"))
fault("DataArray.write_direct", "shape-mismatch", "da")(lambda c: c.da.write_direct(np.zeros(tuple(n + 2 for n in c.da.shape))))
fault("DataArray.data_extent", "rank-mismatch", "da")(lambda c: setattr(c.da, "data_extent", tuple(c.da.shape) + (1,)))
fault("DataArray.label", "wrong-attr-type", "da")(lambda c: setattr(c.da, "label", 5))
fault("DataArray.unit", "wrong-attr-type", "da")(lambda c: setattr(c.da, "unit", 5))
fault("DataArray.expansion_origin", "wrong-attr-type", "da")(lambda c: setattr(c.da, "expansion_origin", "x"))
fault("DataArray.polynom_coefficients", "non-numeric", "da")(lambda c: setattr(c.da, "polynom_coefficients", ["a", "b"]))
fault("DataArray.type", "none", "da")(lambda c: setattr(c.da, "type", None))
fault("DataArray.definition", "wrong-attr-type", "da")(lambda c: setattr(c.da, "definition", 5))
fault("DataArray.metadata", "not-a-section", "da", "b")(lambda c: setattr(c.da, "metadata", c.b))
fault("DataArray.sources.append", "source-of-another-block", "da", "foreign_src")(lambda c: c.da.sources.append(c.foreign_src))
fault("DataArray.sources.append", "wrong-kind", "da", "tag")(lambda c: c.da.sources.append(c.tag))
fault("DataArray.sources.append", "not-an-entity", "da")(lambda c: c.da.sources.append(5))
fault("Block.data_arrays.__delitem__", "unknown-name", "b")(lambda c: c.b.data_arrays.__delitem__("nope"))
fault("Block.data_arrays.__delitem__", "index-out-of-range", "b")(lambda c: c.b.data_arrays.__delitem__(99))
fault("Block.data_arrays.__delitem__", "wrong-kind", "b", "tag")(lambda c: c.b.data_arrays.__delitem__(c.tag))
# ---- tags
fault("Tag.position", "non-numeric", "tag")(lambda c: setattr(c.tag, "position", ["a"]))
fault("Tag.extent", "non-numeric", "tag")(lambda c: setattr(c.tag, "extent", ["a"]))
fault("Tag.position", "non-numeric-ndarray-longer", "tag")(lambda c: setattr(c.tag, "position", np.array(["a", "b", "c"])))
fault("Tag.extent", "non-numeric-ndarray", "tag")(lambda c: setattr(c.tag, "extent", np.array(["on"])))
fault("DataArray.polynom_coefficients", "non-numeric-ndarray", "da")(lambda c: setattr(c.da, "polynom_coefficients", np.array(["a", "b"])))
fault("RangeDimension.ticks", "non-numeric-ndarray", "rdim")(lambda c: setattr(c.rdim, "ticks", np.array(["a", "b"])))
fault("Tag.units", "non-string", "tag")(lambda c: setattr(c.tag, "units", [5]))
fault("Tag.units", "second-element-non-string", "tag")(lambda c: setattr(c.tag, "units", ["ms", 5]))
fault("Tag.references.append", "wrong-kind", "tag", "grp")(lambda c: c.tag.references.append(c.grp))
fault("Tag.references.append", "foreign-block", "tag", "foreign")(lambda c: c.tag.references.append(c.foreign))
fault("Tag.references.append", "none", "tag")(lambda c: c.tag.references.append(None))
fault("Tag.references.extend", "valid-then-invalid", "tag", "da2", "grp")(lambda c: c.tag.references.extend([c.da2, c.grp]))
fault("Tag.references.extend", "not-iterable", "tag")(lambda c: c.tag.references.extend(5))
fault("Tag.references.__delitem__", "unknown-name", "tag")(lambda c: c.tag.references.__delitem__("nope"))
fault("Tag.create_feature", "bad-link-type", "tag", "da")(lambda c: c.tag.create_feature(c.da, "sideways"))
fault("Tag.create_feature", "foreign-block-array", "tag", "foreign")(lambda c: c.tag.create_feature(c.foreign, nix.LinkType.Untagged))
fault("Tag.create_feature", "none-data", "tag")(lambda c: c.tag.create_feature(None, nix.LinkType.Untagged))
fault("Tag.create_feature", "wrong-kind", "tag", "grp")(lambda c: c.tag.create_feature(c.grp, nix.LinkType.Untagged))
fault("Tag.create_feature", "tagged-data-frame", "tag", "df")(lambda c: c.tag.create_feature(c.df, nix.LinkType.Tagged))
fault("Feature.link_type", "bad-link-type", "feat")(lambda c: setattr(c.feat, "link_type", "sideways"))
fault("Feature.data", "none", "feat")(lambda c: setattr(c.feat, "data", None))
fault("Feature.data", "foreign-block-array", "feat", "foreign")(lambda c: setattr(c.feat, "data", c.foreign))
fault("Tag.metadata", "not-a-section", "tag")(lambda c: setattr(c.tag, "metadata", "sec"))
fault("MultiTag.positions", "none", "mtag")(lambda c: setattr(c.mtag, "positions", None))
fault("MultiTag.units", "non-string", "mtag")(lambda c: setattr(c.mtag, "units", [5]))
fault("MultiTag.references.append", "foreign-block", "mtag", "foreign")(lambda c: c.mtag.references.append(c.foreign))
# ---- groups
fault("Group.data_arrays.append", "wrong-kind", "grp", "tag")(lambda c: c.grp.data_arrays.append(c.tag))
fault("Group.data_arrays.append", "foreign-block-same-name", "grp", "foreign")(lambda c: c.grp.data_arrays.append(c.foreign))
fault("Group.tags.append", "wrong-kind", "grp", "da")(lambda c: c.grp.tags.append(c.da))
fault("Group.data_arrays.extend", "valid-then-invalid", "grp", "da2", "tag")(lambda c: c.grp.data_arrays.extend([c.da2, c.tag]))
fault("Group.sources.append", "source-of-another-block", "grp", "foreign_src")(lambda c: c.grp.sources.append(c.foreign_src))
fault("Group.data_arrays.__delitem__", "index-out-of-range", "grp")(lambda c: c.grp.data_arrays.__delitem__(99))
fault("Group.metadata", "not-a-section", "grp", "da")(lambda c: setattr(c.grp, "metadata", c.da))
# ---- data frames
fault("DataFrame.append_rows", "wrong-row-length", "df")(lambda c: c.df.append_rows([(1,)]))
fault("DataFrame.append_column", "wrong-length", "df")(lambda c: c.df.append_column([1] * (len(c.df) + 1), "newcol"))
fault("DataFrame.append_column", "duplicate-column-name", "df")(lambda c: c.df.append_column([1] * len(c.df), c.df.column_names[0]))
fault("DataFrame.write_rows", "row-out-of-range", "df")(lambda c: c.df.write_rows([tuple(c.df[0])], [99]))
fault("DataFrame.write_column", "unknown-column", "df")(lambda c: c.df.write_column([1] * len(c.df), name="nope"))
fault("DataFrame.write_column", "wrong-length", "df")(lambda c: c.df.write_column([1] * (len(c.df) + 1), name=c.df.column_names[0]))
fault("DataFrame.write_cell", "row-out-of-range", "df")(lambda c: c.df.write_cell(1, position=(99, 0)))
fault("DataFrame.write_cell", "unknown-column", "df")(lambda c: c.df.write_cell(1, col_name="nope", row_idx=0))
# calls that the library accepts today (so they are outside the property) but that a stricter version might refuse:
# kept in the catalogue so that such a refusal is checked for leftovers as well
fault("Block.create_multi_tag", "positions-array-of-another-block", "b", "foreign", retry=lambda c: c.b.create_multi_tag("newmt", "t", [1.0]))(
    lambda c: c.b.create_multi_tag("newmt", "t", c.foreign))
fault("Block.create_multi_tag", "extents-array-of-another-block", "b", "foreign", retry=lambda c: c.b.create_multi_tag("newmt", "t", [1.0]))(
    lambda c: c.b.create_multi_tag("newmt", "t", [1.0], extents=c.foreign))
fault("MultiTag.positions", "array-of-another-block", "mtag", "foreign")(lambda c: setattr(c.mtag, "positions", c.foreign))
fault("MultiTag.extents", "array-of-another-block", "mtag", "foreign")(lambda c: setattr(c.mtag, "extents", c.foreign))
fault("Tag.create_feature", "array-of-another-block", "tag", "foreign")(lambda c: c.tag.create_feature(c.foreign, nix.LinkType.Untagged))
fault("Block.create_tag", "position-as-numpy-int-array", "b", retry=lambda c: c.b.create_tag("newtag", "t", [0.0]))(
    lambda c: c.b.create_tag("newtag", "t", np.array([1, 2], dtype=np.int8)))
# the tenth descriptor of an array is refused: the nine that exist stay exactly as they are
fault("DataArray.append_set_dimension", "tenth-descriptor-non-string-labels", "da9")(lambda c: c.da9.append_set_dimension([1, 2]))
fault("DataArray.append_range_dimension", "tenth-descriptor-unordered-ticks", "da9")(lambda c: c.da9.append_range_dimension([3.0, 1.0]))
fault("DataArray.append_sampled_dimension", "tenth-descriptor-non-numeric-interval", "da9")(lambda c: c.da9.append_sampled_dimension("x"))
fault("DataArray.append_range_dimension_using_self", "tenth-descriptor-bad-index", "da9")(lambda c: c.da9.append_range_dimension_using_self([0, 0]))
# multi-row / multi-part calls whose LATER part is invalid: nothing of the earlier part may stay behind
GOODROW = (7, "g", 7.5)
fault("DataFrame.write_rows", "valid-row-then-row-out-of-range", "df")(lambda c: c.df.write_rows([GOODROW, GOODROW], [0, 99]))
fault("DataFrame.write_rows", "valid-row-then-short-row", "df")(lambda c: c.df.write_rows([GOODROW, (1,)], [0, 1]))
fault("DataFrame.write_rows", "valid-row-then-ill-typed-row", "df")(lambda c: c.df.write_rows([GOODROW, ("x", "y", "z")], [0, 1]))
fault("DataFrame.write_rows", "more-rows-than-indices", "df")(lambda c: c.df.write_rows([GOODROW, GOODROW], [0]))
fault("DataFrame.append_rows", "valid-row-then-short-row", "df")(lambda c: c.df.append_rows([GOODROW, (1,)]))
fault("DataFrame.append_rows", "valid-row-then-ill-typed-row", "df")(lambda c: c.df.append_rows([GOODROW, ("x", "y", "z")]))
# index lists that are not increasing (written row by row by some implementations) with a later invalid part
fault("DataFrame.write_rows", "descending-indices-then-short-row", "df")(lambda c: c.df.write_rows([GOODROW, (1,)], [1, 0]))
fault("DataFrame.write_rows", "descending-indices-then-ill-typed-row", "df")(lambda c: c.df.write_rows([GOODROW, ("x", "y", "z")], [1, 0]))
fault("DataFrame.write_rows", "repeated-index-then-ill-typed-row", "df")(lambda c: c.df.write_rows([GOODROW, ("x", "y", "z")], [0, 0]))
fault("DataFrame.write_rows", "valid-row-then-negative-index-out-of-range", "df")(lambda c: c.df.write_rows([GOODROW, GOODROW], [0, -9]))
fault("DataFrame.write_rows", "negative-index-below-first-row", "df")(lambda c: c.df.write_rows([GOODROW], [-len(c.df) - 1]))
fault("DataFrame.write_rows", "negative-index-twice-below", "df")(lambda c: c.df.write_rows([GOODROW], [-2 * len(c.df)]))
fault("DataFrame.write_rows", "indices-as-tuple-then-bad-row", "df")(lambda c: c.df.write_rows([GOODROW, (1,)], (0, 1)))
fault("DataFrame.write_cell", "negative-row-below-first", "df")(lambda c: c.df.write_cell(1, position=(-len(c.df) - 1, 0)))
# hundreds of rows in one call, the invalid one far behind any batch size
fault("DataFrame.append_rows", "600-rows-row-555-too-long", "df")(lambda c: c.df.append_rows([GOODROW] * 555 + [(1, "x", 2.0, 3)] + [GOODROW] * 44))
fault("DataFrame.append_rows", "600-rows-row-300-ill-typed", "df")(lambda c: c.df.append_rows([GOODROW] * 300 + [("x", "y", "z")] + [GOODROW] * 299))
fault("DataFrame.write_column", "single-entry-column", "df")(lambda c: c.df.write_column([9], name=c.df.column_names[0]))
fault("DataFrame.write_column", "single-entry-column-by-index", "df")(lambda c: c.df.write_column([9], index=0))
fault("DataFrame.write_column", "empty-column", "df")(lambda c: c.df.write_column([], name=c.df.column_names[0]))
fault("DataFrame.write_column", "column-index-out-of-range", "df")(lambda c: c.df.write_column([1] * len(c.df), index=99))
fault("DataFrame.write_cell", "column-out-of-range", "df")(lambda c: c.df.write_cell(1, position=(0, 99)))
fault("DataFrame.append_column", "ill-typed-with-declared-type", "df")(lambda c: c.df.append_column(["x"] * len(c.df), "newcol", datatype=np.int64))


def state_list(tier):
    states = [{"seed": "empty", "ops": []}, {"seed": "block", "ops": []}, {"seed": "mini", "ops": []}, {"seed": "rich", "ops": []},
              {"seed": "mini+autonames", "ops": []}, {"seed": "mini+dims9", "ops": []},
              {"seed": "rich", "ops": [], "repeat": 4}, {"seed": "mini+autonames", "ops": [], "repeat": 4}]
    for h in explorer.enumerate_histories("mini", 1, THIN):
        if h[-1][0] != "reopen":
            states.append({"seed": "mini", "ops": h})
    for sd in ("mini", "rich", "mini+dims9"):
        for emptied in (False, True):
            states.append({"seed": sd, "ops": [], "held": "all", "emptied": emptied})
            if sd != "mini+dims9":
                for part in range(3):
                    states.append({"seed": sd, "ops": [], "held": "each", "emptied": emptied, "part": part})
    if tier == "thorough":
        states.append({"seed": "light", "ops": []})
        for h in explorer.enumerate_histories("mini", 2, THIN, follow=explorer.same_entity_or_reopen):
            if len(h) == 2 and h[-1][0] not in ("reopen", "set") and h[0][0] not in ("reopen", "set"):
                states.append({"seed": "mini", "ops": h})       # attribute values do not influence refusals: structural ops only
        for h in explorer.enumerate_histories("block", 1, THIN):
            if h[-1][0] != "reopen":
                states.append({"seed": "block", "ops": h})
    return states


def BOUNDS(tier):
    return {"faults": len(FAULTS), "states": len(state_list(tier)),
            "state_space": "seeds + every state one valid operation away from mini" + (" + two operations (thin) + block+1" if tier == "thorough" else "")}


def cases(tier):
    return state_list(tier)


def build_state(case):
    s = O.Session(build=explorer.SEEDS[case["seed"]])
    m = explorer.seed_model(case["seed"])
    for op in case["ops"]:
        try:
            O.model_apply(m, op)
        except O.Refused:
            continue
        O.impl_apply(s, op)
    return s


def snapshot(s):
    s.f.flush()
    w = walker.walk(s.f)
    # session-level settings of the File object: a refused call must not change them either
    w["$session"] = {"auto_update_timestamps": s.f.auto_update_timestamps, "mode": str(s.f.mode), "is_open": s.f.is_open()}
    return w, rawdigest.digest(s.f._h5file)


def probe_after_refusals(r, s, case):
    """after the refused calls of this state: the session still behaves like a fresh one - an attribute change
    stamps the entity with the current time (automatic timestamps are on) and is there after reopening"""
    ctx = Ctx(s.f)
    if ctx.b is None:
        return
    env.CLOCK.advance(11)
    now = env.CLOCK()
    r.evals += 1
    try:
        ctx.b.definition = "probe-after-refusals"
        got = ctx.b.updated_at
        if got != now:
            r.viol("C12|after-refused-calls|attribute-change-does-not-stamp",
                   "after the refused calls of this state a definition change left updated_at at %r (clock %r)" % (got, now),
                   {"state": case})
            return
        s.reopen("rw")
        b = s.f.blocks[0]
        if b.definition != "probe-after-refusals" or b.updated_at != now:
            r.viol("C12|after-refused-calls|attribute-change-lost-after-reopen",
                   "the attribute change made after the refused calls is not there after reopening", {"state": case})
    except Exception as e:  # noqa
        r.viol("C12|after-refused-calls|valid-call-raises-%s" % type(e).__name__,
               "after the refused calls a valid attribute change raises %s: %s" % (type(e).__name__, str(e)[:120]), {"state": case})


def run_held(case):
    """Every refused call of the fault list is made through ONE long-lived set of handles (obtained before the first
    call, their member lists already used; with "emptied": after the last feature, reference, member and descriptor were
    removed through them).  After all refusals the file is what it was, and valid calls through the same handles take
    effect and show through them exactly as through fresh handles ("the rejected name remains available for a later
    valid call" - for the caller who still holds the entity)."""
    r = R()
    s = build_state(case)
    try:
        def touch(c):
            for e, lists in ((c.tag, ("features", "references", "sources")), (c.mtag, ("features", "references", "sources")),
                             (c.grp, ("data_arrays", "tags", "multi_tags", "sources")), (c.da, ("dimensions", "sources")),
                             (c.b, ("data_arrays", "tags", "multi_tags", "groups", "sources", "data_frames")),
                             (c.src, ("sources",)), (c.sec, ("props", "sections"))):
                if e is not None:
                    for ln in lists:
                        len(getattr(e, ln))

        def prepare(s_):
            c = Ctx(s_.f)
            if case.get("emptied"):
                for e in (c.tag, c.mtag):
                    if e is not None:
                        while len(e.features):
                            del e.features[0]
                        while len(e.references):
                            del e.references[0]
                if c.grp is not None:
                    while len(c.grp.data_arrays):
                        del c.grp.data_arrays[0]
                if c.da is not None:
                    c.da.delete_dimensions()
                c.dim = c.rdim = c.feat = None
            touch(c)
            w, d = snapshot(s_)
            return c, w, d
        ctx, w0, d0 = prepare(s)
        r.states.add(jhash(walker.canon(w0)))
        for fi, fa in enumerate(FAULTS):
            if case.get("part") is not None and fi % 3 != case["part"]:
                continue            # the per-call mode is spread over three cases (work distribution only)
            if any(getattr(ctx, n) is None for n in fa["needs"]):
                continue
            env.CLOCK.advance(7)
            try:
                fa["fn"](ctx)
                exc = None
            except LookupError as e:
                if str(e).strip("'\"") == "skip":
                    continue
                exc = e
            except Exception as e:  # noqa
                exc = e
            r.evals += 1
            r.transitions += 1
            if exc is None:
                # accepted calls are the business of the per-state cases; start again from a clean state
                r.bump("accepted_calls")
                s.close()
                s = build_state(case)
                ctx, w0, d0 = prepare(s)
                continue
            r.nontrivial += 1
            r.outcomes.add("refused:" + type(exc).__name__)
            if case["held"] == "each":
                # the valid calls follow this one refusal directly; then a clean state again
                ok = valid_calls_agree(r, s, ctx, case, fa["site"] + ":" + fa["cls"])
                s.close()
                s = build_state(case)
                ctx, w0, d0 = prepare(s)
                if not ok:
                    return r
        if case["held"] == "each":
            r.traces = 1
            return r
        w1, d1 = snapshot(s)
        if w1 != w0:
            r.viol("C12|held-handles|after-all-refusals|walk-changed:%s" % ",".join(walker.diff_keys(w0, w1)[:2])[:120],
                   "after the refused calls through long-lived handles the observable state changed: %s" % "; ".join(walker.diff(w0, w1, limit=3)), {"state": case})
            return r
        if not valid_calls_agree(r, s, ctx, case, "all-faults"):
            return r
        r.traces = 1
        return r
    finally:
        s.close()


def valid_calls_agree(r, s, ctx, case, after):
        """valid calls through the long-lived handles of ctx; afterwards they show what fresh handles show"""
        steps = []
        if ctx.tag is not None and ctx.da is not None:
            steps += [("Tag.create_feature", lambda: ctx.tag.create_feature(ctx.da, nix.LinkType.Untagged)),
                      ("Tag.references.append", lambda: ctx.tag.references.append(ctx.da))]
        if ctx.mtag is not None and ctx.da is not None:
            steps += [("MultiTag.create_feature", lambda: ctx.mtag.create_feature(ctx.da, nix.LinkType.Untagged)),
                      ("MultiTag.references.append", lambda: ctx.mtag.references.append(ctx.da))]
        if ctx.da is not None:
            steps += [("DataArray.append_set_dimension", lambda: ctx.da.append_set_dimension(["held"])),
                      ("DataArray.append_sampled_dimension", lambda: ctx.da.append_sampled_dimension(0.5))]
        if ctx.grp is not None and ctx.da is not None:
            steps += [("Group.data_arrays.append", lambda: ctx.grp.data_arrays.append(ctx.da))]
        if ctx.b is not None:
            steps += [("Block.create_data_array", lambda: ctx.b.create_data_array("held-new", "t", data=np.array([1.0]))),
                      ("Block.create_tag", lambda: ctx.b.create_tag("held-tag", "t", [0.0])),
                      ("Block.create_group", lambda: ctx.b.create_group("held-grp", "t"))]
        if ctx.sec is not None:
            steps += [("Section.create_property", lambda: ctx.sec.create_property("held-prop", [1])),
                      ("Section.create_section", lambda: ctx.sec.create_section("held-sec", "t"))]
        if ctx.src is not None:
            steps += [("Source.create_source", lambda: ctx.src.create_source("held-src", "t"))]
        for site, fn in steps:
            r.evals += 1
            r.transitions += 1
            try:
                fn()
            except Exception as e:  # noqa
                r.viol("C12|held-handles|%s|valid-call-after-refusals-raises-%s" % (site, type(e).__name__),
                       "after the refused calls a valid %s through the long-lived handle raises %s: %s" % (site, type(e).__name__, str(e)[:120]), {"state": case})
                return False
        fresh = Ctx(s.f)
        for nm in ("b", "da", "tag", "mtag", "grp", "src", "sec"):
            h, g = getattr(ctx, nm), getattr(fresh, nm)
            if h is None or g is None:
                continue
            r.evals += 1
            a, b_ = walker.canon(walker.walk_obj(h)), walker.canon(walker.walk_obj(g))
            if a != b_:
                r.viol("C12|held-handles|%s|differs-from-fresh-handle:%s" % (type(h).__name__, ",".join(walker.diff_keys(b_, a)[:2])[:100]),
                       "after the refused call(s) [%s] and then valid calls the long-lived %s handle shows another state than a fresh one: %s" % (
                           after, type(h).__name__, "; ".join(walker.diff(b_, a, limit=3))), {"state": case})
                return False
        return True



def run_case(case):
    if case.get("held"):
        return run_held(case)
    r = R()
    s = build_state(case)
    try:
        w0, d0 = snapshot(s)
        r.states.add(jhash(walker.canon(w0)))
        for fa in FAULTS:
            ctx = Ctx(s.f)
            if any(getattr(ctx, n) is None for n in fa["needs"]):
                continue
            r.evals += 1
            env.CLOCK.advance(7)        # any timestamp written by a refused call becomes visible
            skip = False
            for _rep in range(case.get("repeat", 1)):
                # (repeat > 1: the same refused call several times in a row - the N-th refusal leaves as little behind as the first)
                try:
                    fa["fn"](ctx)
                    exc = None
                except LookupError as e:
                    if str(e).strip("'\"") == "skip":
                        skip = True
                        break
                    exc = e
                except Exception as e:  # noqa
                    exc = e
                if exc is None:
                    break
            if skip:
                continue
            r.transitions += 1
            if exc is None:
                r.outcomes.add("accepted:%s" % fa["site"])
                r.bump("accepted_calls")
                s.close()
                s = build_state(case)
                continue
            r.nontrivial += 1
            r.outcomes.add("refused:" + type(exc).__name__)
            w1, d1 = snapshot(s)
            dirty = False
            if w1 != w0:
                dirty = True
                keys = walker.diff_keys(w0, w1)
                r.viol("C12|%s|%s|walk-changed:%s" % (fa["site"], fa["cls"], ",".join(keys[:2])[:120]),
                       "%s (%s) raised %s but the observable state changed: %s" % (
                           fa["site"], fa["cls"], type(exc).__name__, "; ".join(walker.diff(w0, w1, limit=3))),
                       {"state": case, "exception": "%s: %s" % (type(exc).__name__, str(exc)[:200])})
            elif d1 != d0:
                dirty = True
                dd = rawdigest.digest_diff(d0, d1)
                what = sorted({x.split(" ")[0] for x in dd})
                r.viol("C12|%s|%s|raw-changed:%s" % (fa["site"], fa["cls"], "+".join(what)),
                       "%s (%s) raised %s; the public walk is unchanged but the HDF5 file changed: %s" % (
                           fa["site"], fa["cls"], type(exc).__name__, "; ".join(dd[:3])),
                       {"state": case, "exception": "%s: %s" % (type(exc).__name__, str(exc)[:200])})
            elif fa["retry"] is not None and not (ctx.autonames and fa["site"] == "Block.create_multi_tag"):
                # the rejected name must still be available
                try:
                    fa["retry"](ctx)
                    r.transitions += 1
                    dirty = True
                except Exception as e2:  # noqa
                    dirty = True
                    r.viol("C12|%s|%s|retry-with-valid-argument-fails-%s" % (fa["site"], fa["cls"], type(e2).__name__),
                           "after the refused %s (%s) the same call with a valid argument raises %s: %s" % (
                               fa["site"], fa["cls"], type(e2).__name__, str(e2)[:120]), {"state": case})
            if dirty:
                s.close()
                s = build_state(case)
        probe_after_refusals(r, s, case)
        r.traces = 1
        return r
    finally:
        s.close()
