"""C06 - index expressions on arrays and views mean what they mean in NumPy.

E2: every index tuple of the alphabet on every shape / every view window,
reads and assignments, compared with NumPy applied to an in-memory copy.
"""
import itertools

import numpy as np

from mc import env
from mc.core import R
import nixio as nix
from nixio.exceptions import OutOfBounds

LEVEL = "exploration"
RULE = ("arrays: every shape of rank 1-2 over extents 1..3 plus selected rank 3-4 shapes; per axis of length n the "
        "index alphabet is every int in -n-1..n and slices with start, stop in {None, -n-1..n+1} (quick: 7 of "
        "them) and step in {None,1,2,n+1}; index tuples = full product over the axes, every shorter tuple, the "
        "bare index, one Ellipsis at every position; reads and assignments. views: every window (start -1..n, "
        "extent 0..n+1 per axis) x the same alphabet sized to the window; non-trivial = expression that is "
        "not the all-None slice; distinct by construction")
ASSUMPTIONS = [
    "tuples longer than the rank, zero/negative steps, None/newaxis, boolean and fancy indices are outside the statement",
    "windows with a negative start may be refused/invalid or behave like NumPy's ref[start:start+extent]",
    "assignment values are distinct fresh numbers with the shape of the addressed region",
]
CHUNK = 1
WALL_CAP = {"quick": 900, "thorough": 7200}


def ints(n):
    return list(range(-n - 1, n + 1))


def slices(n, level):
    """level: 'full' | 'reduced' | 'medium'"""
    if level == "full" or level is True:
        ss = [None] + list(range(-n - 1, n + 2))
        return [slice(a, b, c) for a in ss for b in ss for c in [None, 1, 2, n + 1]]
    if level == "reduced" or level is False:
        ss = [None, -n - 1, -1, 0, 1, n, n + 1]
        return [slice(a, b, c) for a in ss for b in ss for c in [None, 1, 2]]
    if level == "small":
        return [slice(None), slice(1, None), slice(None, -1), slice(None, None, 2), slice(n, None),
                slice(-n - 1, n + 1), slice(0, 1), slice(-1, None), slice(1, n + 2, 2)]
    starts = [None, -1, 0, 1, n + 1]
    stops = [None, -1, 0, n, n + 1]
    return [slice(a, b, c) for a in starts for b in stops for c in [None, 2]]


def small_axis(n):
    return [-n - 1, -1, 0, n - 1, n, slice(None), slice(1, None), slice(None, -1), slice(None, None, 2),
            slice(n, None), slice(-n - 1, n + 1)]


def enc_idx(x):
    if isinstance(x, slice):
        return ["s", x.start, x.stop, x.step]
    if x is Ellipsis:
        return "..."
    return x


def dec_idx(x):
    if isinstance(x, list):
        return slice(x[1], x[2], x[3])
    if x == "...":
        return Ellipsis
    return x


def shapes(tier):
    out = []
    for n in (1, 2, 3):
        out.append((n,))
    for a in (1, 2, 3):
        for b in (1, 2, 3):
            out.append((a, b))
    out += [(2, 1, 3), (2, 2, 2), (1, 2, 2, 2)]
    if tier == "thorough":
        out += [(4,), (0,), (2, 0), (0, 3), (3, 2, 2), (2, 2, 1, 2), (4, 2)]
    return out


def windows(shape):
    per_axis = []
    for n in shape:
        per_axis.append([(s, e) for s in range(-1, n + 1) for e in range(0, n + 2)])
    return list(itertools.product(*per_axis))


def BOUNDS(tier):
    return {"shapes": [list(s) for s in shapes(tier)], "slice_alphabet": "array reads full (rank<=2), views reduced" if tier == "thorough" else "array reads reduced (7 starts x 7 stops x 3 steps), writes medium (5 x 5 x 2), rank-2 views small (all ints + 9 slices per axis)",
            "views": "all windows start -1..n, extent 0..n+1 for rank<=2; corner windows for rank 3-4"}


def cases(tier):
    T = tier == "thorough"
    for shp in shapes(tier):
        yield {"k": "array", "shape": list(shp), "full": "full" if (T and len(shp) <= 2) else "reduced", "write": False}
        yield {"k": "array", "shape": list(shp), "full": "reduced" if T else "medium", "write": True}
        if len(shp) <= 2:
            for w in windows(shp):
                if len(shp) == 1:
                    lvl = "full" if T else "reduced"
                else:
                    lvl = "reduced" if T else "small"
                yield {"k": "view", "shape": list(shp), "win": [list(x) for x in w], "full": lvl}
        else:
            for w in ([(0, n) for n in shp], [(1, n - 1) for n in shp], [(0, 1) for n in shp],
                      [(n - 1, 1) for n in shp], [(0, n + 1) for n in shp]):
                yield {"k": "view", "shape": list(shp), "win": [list(x) for x in w], "full": "medium"}
    for shp in [[3000], [1100, 3], [12000]] + ([[2049, 2, 2], [70000]] if T else []):
        yield {"k": "big", "shape": shp}
    yield {"k": "text", "shape": [3]}
    yield {"k": "text", "shape": [2, 2]}


def exprs_for(shape, full):
    """all index expressions of the alphabet for an array/view of this shape"""
    rank = len(shape)
    if rank <= 2:
        per_axis = [ints(n) + slices(n, full) for n in shape]
    else:
        per_axis = [small_axis(n) for n in shape]
    out = []
    for k in range(1, rank + 1):
        for t in itertools.product(*per_axis[:k]):
            out.append(t)
            if k == 1:
                out.append(t[0])                    # bare index
    # one Ellipsis at every position (reduced per-axis alphabet to keep the product finite and small)
    red = [small_axis(n) for n in shape]
    for k in range(0, rank + 1):
        for pos in range(0, k + 1):
            # k explicit indices: `pos` leading axes, k-pos trailing axes
            axes = list(range(pos)) + list(range(rank - (k - pos), rank))
            for t in itertools.product(*[red[a] for a in axes]):
                out.append(tuple(t[:pos]) + (Ellipsis,) + tuple(t[pos:]))
    return out


def np_eval(ref, expr):
    try:
        v = ref[expr]
    except IndexError:
        return "IndexError", None
    v = np.asarray(v)
    if v.ndim == 0:
        v = v.reshape((1,))
    return "ok", v


def is_trivial(expr):
    if not isinstance(expr, tuple):
        expr = (expr,)
    return all(e is Ellipsis or (isinstance(e, slice) and e == slice(None)) for e in expr)


def ecls(expr):
    if not isinstance(expr, tuple):
        return "bare-" + ("int" if not isinstance(expr, slice) else "slice")
    kinds = set()
    for e in expr:
        kinds.add("E" if e is Ellipsis else ("s" if isinstance(e, slice) else ("neg" if e < 0 else "int")))
    return "+".join(sorted(kinds))


def run_array(case, r):
    shape = tuple(case["shape"])
    env.install_seams()
    env.reset_execution()
    path = env.fresh_path("c06_")
    f = nix.File.open(path, nix.FileMode.Overwrite)
    try:
        b = f.create_block("b", "t")
        size = int(np.prod(shape))
        ref0 = (np.arange(size, dtype=np.float64) + 1).reshape(shape)
        da = b.create_data_array("d", "t", data=ref0) if size else b.create_data_array("d", "t", dtype=np.float64, shape=shape)
        exprs = exprs_for(shape, case["full"])
        target = "array"
        if not case["write"]:
            for expr in exprs:
                r.evals += 1
                if not is_trivial(expr):
                    r.nontrivial += 1
                st, exp = np_eval(ref0, expr)
                try:
                    got = da[expr]
                    gst = "ok"
                except IndexError:
                    got, gst = None, "IndexError"
                except Exception as e:  # noqa
                    got, gst = None, type(e).__name__
                compare_read(r, target, shape, None, expr, st, exp, gst, got)
        else:
            counter = 1000.0
            for expr in exprs:
                st, exp = np_eval(ref0, expr)
                if st != "ok":
                    continue
                region = ref0[expr]
                vals = (np.arange(np.asarray(region).size, dtype=np.float64) + counter).reshape(np.asarray(region).shape)
                counter += 100
                ref = ref0.copy()
                ref[expr] = vals
                r.evals += 1
                if not is_trivial(expr):
                    r.nontrivial += 1
                try:
                    da[expr] = vals
                    gst = "ok"
                except Exception as e:  # noqa
                    gst = type(e).__name__
                now = np.array(da[...] if size else ref0)
                compare_write(r, target, shape, None, expr, gst, ref, now, vals)
                if not np.array_equal(now, ref0):
                    da[...] = ref0
    finally:
        env.safe_close(f)
        env.rm(path)


def compare_read(r, target, shape, win, expr, st, exp, gst, got):
    r.outcomes.add("%s-read:%s/%s" % (target, st, gst))
    what = None
    if st == "IndexError":
        if gst == "ok":
            if np.asarray(got).size == 0:
                return          # marked empty: allowed by the statement for out-of-range requests
            what, cls = "out-of-range index returned data %r" % (np.asarray(got).tolist(),), "oob-accepted"
        elif gst != "IndexError":
            what, cls = "raises %s instead of an index error" % gst, "oob-raises-" + gst
    else:
        if gst != "ok":
            what, cls = "raises %s, NumPy returns %r" % (gst, exp.tolist()), "raises-" + gst
        else:
            g = np.asarray(got)
            if g.shape != exp.shape or not np.array_equal(g, exp):
                what, cls = "returns %r (shape %s), NumPy returns %r (shape %s)" % (
                    g.tolist(), g.shape, exp.tolist(), exp.shape), ("wrong-shape" if g.shape != exp.shape else "wrong-values")
    if what:
        r.viol("C06|%s-read|rank%d|%s|%s" % (target, len(shape), ecls(expr), cls),
               "%s of shape %s%s: [%s] %s" % (target, shape, "" if win is None else " window %s" % (win,), fmt(expr), what),
               {"expr": [enc_idx(e) for e in (expr if isinstance(expr, tuple) else (expr,))], "bare": not isinstance(expr, tuple)})


def compare_write(r, target, shape, win, expr, gst, ref, now, vals):
    r.outcomes.add("%s-write:%s" % (target, gst))
    what = None
    if gst != "ok":
        what, cls = "assignment raises %s, NumPy accepts it" % gst, "raises-" + gst
    elif now.shape != ref.shape or not np.array_equal(now, ref):
        what, cls = "after assignment the array is %r, NumPy gives %r" % (now.tolist(), ref.tolist()), "wrong-elements"
    if what:
        r.viol("C06|%s-write|rank%d|%s|%s" % (target, len(shape), ecls(expr), cls),
               "%s of shape %s%s: [%s] = %r: %s" % (target, shape, "" if win is None else " window %s" % (win,), fmt(expr),
                                                     np.asarray(vals).tolist(), what),
               {"expr": [enc_idx(e) for e in (expr if isinstance(expr, tuple) else (expr,))]})


def fmt(expr):
    if not isinstance(expr, tuple):
        expr = (expr,)
    out = []
    for e in expr:
        if e is Ellipsis:
            out.append("...")
        elif isinstance(e, slice):
            out.append("%s:%s%s" % ("" if e.start is None else e.start, "" if e.stop is None else e.stop,
                                    "" if e.step is None else ":%s" % e.step))
        else:
            out.append(str(e))
    return ", ".join(out)


def big_exprs(n):
    """index components for a long axis: strides that do not divide the usual block sizes, bounds around 255/256/1024"""
    return [slice(None, None, 3), slice(None, None, 7), slice(5, n - 3, 100), slice(1, None, 2), slice(1023, 1027), slice(255, 257),
            slice(n - 1, None), slice(-1030, -5, 5), 0, 255, 256, 1023, 1024, n - 1, -1, -n]


def run_big(case, r):
    """arrays and views that are NOT small: axes longer than 1024, strided reads and writes, scalar assignment to large
    regions through views that start at an offset"""
    shape = tuple(case["shape"])
    env.install_seams()
    env.reset_execution()
    path = env.fresh_path("c06b_")
    f = nix.File.open(path, nix.FileMode.Overwrite)
    try:
        b = f.create_block("b", "t")
        size = int(np.prod(shape))
        ref0 = (np.arange(size, dtype=np.float64) + 1).reshape(shape)
        da = b.create_data_array("d", "t", data=ref0)
        n = shape[0]
        rest = [(slice(None),), (0,), (slice(None, None, 2),)] if len(shape) > 1 else [()]
        windows = [None, (n // 4, n // 2), (1, n - 2), (1000, 24 if n > 1100 else 10)]
        for win in windows:
            if win is None:
                tgt, refw, label = da, ref0, "array"
            else:
                starts = [win[0]] + [0] * (len(shape) - 1)
                exts = [win[1]] + list(shape[1:])
                tgt = da.get_slice(starts, exts, nix.DataSliceMode.Index)
                refw = ref0[win[0]:win[0] + win[1]]
                label = "view"
            m = refw.shape[0]
            for e0 in big_exprs(m):
                for tail in rest:
                    expr = (e0,) + tail if tail else e0
                    r.evals += 1
                    r.nontrivial += 1
                    st, exp = np_eval(refw, expr)
                    try:
                        got = tgt[expr]
                        gst = "ok"
                    except IndexError:
                        got, gst = None, "IndexError"
                    except Exception as e:  # noqa
                        got, gst = None, type(e).__name__
                    compare_read(r, label + "-big", shape, win, expr, st, exp, gst, got)
            # assignments: a scalar to the whole window / a strided part of it, an array to a strided part
            for e0, val in ((slice(None), -1.0), (slice(None, None, 3), -2.0), (slice(3, m - 2, 7), None), (slice(m // 2, None), -3.0)):
                expr = (e0,) + ((slice(None),) * (len(shape) - 1))
                region = refw[expr]
                vals = val if val is not None else (np.arange(region.size, dtype=np.float64) + 5000).reshape(region.shape)
                ref = ref0.copy()
                if win is None:
                    ref[expr] = vals
                else:
                    ref[win[0]:win[0] + win[1]][expr] = vals
                r.evals += 1
                r.nontrivial += 1
                try:
                    tgt[expr] = vals
                    gst = "ok"
                except Exception as e:  # noqa
                    gst = type(e).__name__
                now = np.array(da[...])
                compare_write(r, label + "-big", shape, win, expr, gst, ref, now, vals)
                if not np.array_equal(now, ref0):
                    da[...] = ref0
    finally:
        env.safe_close(f)
        env.rm(path)


def run_view(case, r):
    shape = tuple(case["shape"])
    win = [tuple(w) for w in case["win"]]
    env.install_seams()
    env.reset_execution()
    path = env.fresh_path("c06v_")
    f = nix.File.open(path, nix.FileMode.Overwrite)
    try:
        b = f.create_block("b", "t")
        size = int(np.prod(shape))
        ref0 = (np.arange(size, dtype=np.float64) + 1).reshape(shape)
        da = b.create_data_array("d", "t", data=ref0)
        starts = [w[0] for w in win]
        exts = [w[1] for w in win]
        r.evals += 1
        r.nontrivial += 1
        inside = all(s >= 0 and s + e <= n for (s, e), n in zip(win, shape))
        beyond = any(s >= 0 and s + e > n for (s, e), n in zip(win, shape))
        negative = any(s < 0 for s in starts)
        try:
            view = da.get_slice(starts, exts, nix.DataSliceMode.Index)
            vst = "ok"
        except (IndexError, ValueError) as e:
            view, vst = None, type(e).__name__
        wcls = "inside" if inside else ("beyond" if beyond else "negative-start")
        r.outcomes.add("window:%s:%s:%s" % (wcls, vst, None if view is None else view.valid))
        np_win = tuple(slice(s, s + e) for s, e in win)
        if view is None:
            if inside:
                r.viol("C06|get_slice|rank%d|inside|refused-%s" % (len(shape), vst),
                       "get_slice(%s, %s) on shape %s raises %s" % (starts, exts, shape, vst), {})
            return
        if not view.valid:
            if inside:
                r.viol("C06|get_slice|rank%d|inside|marked-invalid" % len(shape),
                       "get_slice(%s, %s) on shape %s is marked invalid: %s" % (starts, exts, shape, view.debug_message), {})
                return
            # invalid view: reads return nothing, writes raise
            got = np.asarray(view[:])
            if got.size != 0:
                r.viol("C06|view-read|rank%d|invalid-view|returns-data" % len(shape),
                       "invalid view (%s,%s) on shape %s returns %r" % (starts, exts, shape, got.tolist()), {})
            try:
                view[:] = 1.0
                wrote = True
            except Exception:
                wrote = False
            if wrote or not np.array_equal(np.array(da[...]), ref0):
                r.viol("C06|view-write|rank%d|invalid-view|accepted" % len(shape),
                       "writing through an invalid view (%s,%s) on shape %s is accepted" % (starts, exts, shape), {})
            return
        # valid view
        if beyond:
            r.viol("C06|get_slice|rank%d|beyond|valid" % len(shape),
                   "get_slice(%s, %s) reaches beyond shape %s but the view is valid with shape %s" % (
                       starts, exts, shape, view.shape), {})
            return
        refv0 = ref0[np_win]
        if negative and tuple(view.shape) != refv0.shape:
            # leniency (statement is silent on negative starts): the view may be refused, invalid, or
            # NumPy's window; a 'valid' view of odd shape must at least never yield other elements
            try:
                got = np.asarray(view[:])
            except Exception:
                return
            if got.size and not (got.shape == refv0.shape and np.array_equal(got, refv0)):
                r.viol("C06|get_slice|rank%d|negative-start|yields-other-elements" % len(shape),
                       "view (%s,%s) on shape %s returns %r, NumPy window is %r" % (starts, exts, shape, got.tolist(), refv0.tolist()), {})
            return
        if tuple(view.shape) != refv0.shape:
            r.viol("C06|get_slice|rank%d|%s|wrong-shape" % (len(shape), wcls),
                   "view (%s,%s) on shape %s has shape %s, NumPy window has %s" % (starts, exts, shape, view.shape, refv0.shape), {})
            return
        vshape = refv0.shape
        exprs = exprs_for(vshape, case["full"]) if all(n > 0 for n in vshape) else [slice(None), Ellipsis, (Ellipsis,)]
        target = "view"
        counter = 1000.0
        for expr in exprs:
            r.evals += 1
            if not is_trivial(expr):
                r.nontrivial += 1
            st, exp = np_eval(refv0, expr)
            try:
                got = view[expr]
                gst = "ok"
            except IndexError:
                got, gst = None, "IndexError"
            except Exception as e:  # noqa
                got, gst = None, type(e).__name__
            compare_read(r, target, shape, win, expr, st, exp, gst, got)
        # assignments through the view (reduced alphabet for rank 2)
        wexprs = exprs if (len(vshape) == 1 or case["full"] == "small") else exprs_for(vshape, "medium")
        for expr in wexprs:
            st, exp = np_eval(refv0, expr)
            if st != "ok":
                continue
            region = np.asarray(refv0[expr])
            vals = (np.arange(region.size, dtype=np.float64) + counter).reshape(region.shape)
            counter += 100
            ref = ref0.copy()
            refv = ref[np_win]
            refv[expr] = vals
            r.evals += 1
            r.nontrivial += 1
            try:
                view[expr] = vals
                gst = "ok"
            except Exception as e:  # noqa
                gst = type(e).__name__
            now = np.array(da[...])
            compare_write(r, target, shape, win, expr, gst, ref, now, vals)
            if not np.array_equal(now, ref0):
                da[...] = ref0
    finally:
        env.safe_close(f)
        env.rm(path)


def run_text(case, r):
    shape = tuple(case["shape"])
    env.install_seams()
    env.reset_execution()
    path = env.fresh_path("c06t_")
    f = nix.File.open(path, nix.FileMode.Overwrite)
    try:
        b = f.create_block("b", "t")
        size = int(np.prod(shape))
        ref0 = np.array(["s%d" % i for i in range(size)], dtype=object).reshape(shape)
        da = b.create_data_array("d", "t", data=ref0, dtype=nix.DataType.String)
        for expr in exprs_for(shape, "reduced"):
            r.evals += 1
            r.nontrivial += 1
            st, exp = np_eval(ref0, expr)
            try:
                got = da[expr]
                gst = "ok"
            except IndexError:
                got, gst = None, "IndexError"
            except Exception as e:  # noqa
                got, gst = None, type(e).__name__
            compare_read(r, "text-array", shape, None, expr, st, exp, gst, got)
    finally:
        env.safe_close(f)
        env.rm(path)


def run_case(case):
    r = R()
    {"array": run_array, "view": run_view, "text": run_text, "big": run_big}[case["k"]](case, r)
    return r
