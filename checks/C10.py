"""C10 - metadata properties hold typed value lists; sections behave like ordered dicts.

E1 (sequences): per value type, all histories of length <= d over create /
assign / extend / clear / dictionary-style operations / attribute set+clear /
REOPEN, including every mixed-type and other-type candidate at every element
position; after every step every reader is compared with a list model.
"""
import itertools
import math

import numpy as np

from mc import env
from mc.core import R, jhash
import nixio as nix
from nixio import DataType
from nixio.exceptions import DuplicateName

LEVEL = "model_checking"
RULE = ("per value type t in {bool,int,float,text}: all histories of length <= d over {create p (list of 1..3 special "
        "values | scalar | DataType only | every mixed/other-type candidate), p.values = (list | scalar | None | [] | "
        "other-type list | list with one foreign element at every position), extend_values (same), delete_values, "
        "set/clear of every optional attribute, sec[k] = v, del sec[k], subsection via S(), REOPEN}; second property "
        "'Z' created before 'p' so that creation order differs from name order; after every step values/type/order of "
        "all properties and the dict-style readers are compared with the model; non-trivial = history with at least "
        "one accepted write; distinct by construction")
ASSUMPTIONS = [
    "only the four stated value types; ints inside int64",
    "len(section) may count properties only or properties plus subsections",
    "assigning the bare scalar '' (an empty sequence) is not asserted; lists are used for everything asserted",
    "None elements inside a value list are not candidates",
]
CHUNK = 1
WALL_CAP = {"quick": 900, "thorough": 7200}
TYPES = ["bool", "int", "float", "text"]
VALS = {
    "bool": [[True], [False, True], [True, True, False]],
    "int": [[0], [2 ** 63 - 1, -2 ** 63], [1, -1, 7]],
    "float": [[float("nan")], [float("inf"), -0.0], [5e-324, 1.7976931348623157e308, -1.5]],
    "text": [[""], ["ünï", "a"], ["x" * 300, " ", "日本"]],
}
ONE = {"bool": True, "int": 1, "float": 1.0, "text": "1"}
NIXT = {"bool": DataType.Bool, "int": DataType.Int64, "float": DataType.Double, "text": DataType.String}
ATTRS = [("unit", "mV", "mV"), ("unit", " µV", "uV"), ("definition", "dé f", "dé f"), ("uncertainty", 2, 2.0),
         ("reference", "ref", "ref"), ("dependency", "dep", "dep"), ("dependency_value", "dv", "dv"),
         ("value_origin", "vo", "vo")]


def tname(v):
    if isinstance(v, (bool, np.bool_)):
        return "bool"
    if isinstance(v, (int, np.integer)):
        return "int"
    if isinstance(v, (float, np.floating)):
        return "float"
    if isinstance(v, str):
        return "text"
    return type(v).__name__


def dtype_name(dt):
    try:
        if dt == DataType.String:
            return "text"
    except Exception:
        pass
    try:
        return {"b": "bool", "i": "int", "u": "int", "f": "float"}.get(np.dtype(dt).kind, str(dt))
    except Exception:
        return str(dt)


def veq(a, b):
    if tname(a) != tname(b):
        return False
    if tname(a) == "float":
        a, b = float(a), float(b)
        if math.isnan(a) or math.isnan(b):
            return math.isnan(a) and math.isnan(b)
        return a == b and math.copysign(1, a) == math.copysign(1, b)
    return a == b


def leq(a, b):
    return len(a) == len(b) and all(veq(x, y) for x, y in zip(a, b))


def foreign_candidates(t):
    """every list with a foreign element at some position, and pure foreign lists"""
    out = []
    for u in TYPES:
        if u == t:
            continue
        out.append(("pure-" + u, [ONE[u]]))
        out.append(("pure-" + u + "2", [ONE[u], ONE[u]]))
        for pos in range(3):
            lst = [ONE[t]] * 3
            lst[pos] = ONE[u]
            out.append(("mixed-%s@%d" % (u, pos), lst))
    return out


def ops_for(t, tier):
    """the operation alphabet for value type t; each op: (kind, name, argclass, payload)"""
    ops = []
    for i, lst in enumerate(VALS[t]):
        ops.append(("create", "p", "list%d" % len(lst), lst))
    ops.append(("create", "p", "scalar", ONE[t]))
    ops.append(("create", "p", "dtype", None))
    ops.append(("create", "p", "empty-list", []))
    for cn, cand in foreign_candidates(t):
        if cn.startswith("mixed"):
            ops.append(("create", "p", "bad:" + cn, cand))
    for i, lst in enumerate(VALS[t]):
        ops.append(("assign", "p", "list%d" % len(lst), lst))
    ops.append(("assign", "p", "scalar", ONE[t]))
    ops.append(("assign", "p", "None", None))
    ops.append(("assign", "p", "empty-list", []))
    ops.append(("extend", "p", "list2", VALS[t][1]))
    ops.append(("extend", "p", "list1", VALS[t][0]))
    for cn, cand in foreign_candidates(t):
        ops.append(("assign", "p", "bad:" + cn, cand))
        ops.append(("extend", "p", "bad:" + cn, cand))
    # other argument forms: tuples, NumPy arrays of the property's own element type (accepted), NumPy arrays of
    # another element type (refused like lists of another type)
    ops.append(("assign", "p", "tuple", tuple(VALS[t][2])))
    ops.append(("extend", "p", "tuple", tuple(VALS[t][1])))
    if t != "text":
        ops.append(("assign", "p", "np-own", np.array(VALS[t][1])))
        ops.append(("extend", "p", "np-own", np.array(VALS[t][2])))
    for u in TYPES:
        if u != t and u != "text":
            ops.append(("assign", "p", "bad:np-" + u, np.array([ONE[u], ONE[u]])))
            ops.append(("extend", "p", "bad:np-" + u, np.array([ONE[u]])))
    ops.append(("clear", "p", "-", None))
    ops.append(("dict-set", "p", "list", VALS[t][2]))
    ops.append(("dict-set", "p", "scalar", ONE[t]))
    ops.append(("dict-set", "p", "bad:pure", [ONE[[u for u in TYPES if u != t][0]]]))
    ops.append(("dict-set", "q", "scalar", ONE[t]))
    ops.append(("dict-del", "p", "-", None))
    ops.append(("dict-del", "Z", "-", None))
    ops.append(("subsection", "p", "-", None))     # subsection with the same name as the property
    ops.append(("subsection", "sub", "-", None))
    for a, v, _e in ATTRS[: (len(ATTRS) if tier == "thorough" else 3)]:
        ops.append(("attr", "p", a, v))
        ops.append(("attr", "p", a + "=None", None))
    ops.append(("reopen", "-", "-", None))
    return ops


def long_histories(t):
    """hand-written long histories on ONE section object: a property is assigned dictionary-style, deleted, created
    again under the same name (same type, other type, by assignment), assigned again; refused assignments in the
    middle; every step is verified (a violation at any step is reported)"""
    ops = {(o[0], o[1], o[2]): o for o in ops_for(t, "quick")}
    u = [x for x in TYPES if x != t][0]

    def o(*k):
        return ops[k]
    h0 = [o("create", "p", "list2"), o("dict-set", "p", "list"), o("dict-del", "p", "-"), o("create", "p", "list2"),
          o("dict-set", "p", "list"), o("assign", "p", "list1"), o("dict-set", "p", "scalar"), o("dict-del", "p", "-"),
          o("create", "p", "dtype"), o("dict-set", "p", "list"), o("clear", "p", "-"), o("dict-set", "q", "scalar"),
          o("dict-set", "p", "scalar"), o("dict-del", "p", "-"), o("dict-set", "p", "list"), o("dict-set", "p", "scalar")]
    h1 = [o("create", "p", "list3"), o("dict-set", "p", "scalar"), o("extend", "p", "list2"), o("dict-del", "p", "-"),
          o("dict-set", "p", "list"), o("dict-set", "p", "scalar"), o("dict-del", "p", "-"), o("create", "p", "dtype"),
          o("extend", "p", "list1"), o("dict-set", "p", "list"), o("reopen", "-", "-"), o("dict-set", "p", "scalar"),
          o("dict-del", "p", "-"), o("create", "p", "list2"), o("dict-set", "p", "list"), o("attr", "p", "unit"),
          o("dict-set", "p", "scalar"), o("clear", "p", "-"), o("dict-set", "p", "list")]
    h2 = [o("create", "p", "list2"), o("dict-set", "p", "list"), o("dict-set", "p", "bad:pure"), o("dict-del", "p", "-"),
          o("create", "p", "list2"), o("dict-set", "p", "bad:pure"), o("dict-set", "p", "list"), o("dict-del", "p", "-"),
          ("create", "p", "other-type", [ONE[u]]), ("dict-set", "p", "bad:own-type-now-foreign", [ONE[t]]),
          o("dict-del", "p", "-"), o("create", "p", "list3"), o("dict-set", "p", "list")]
    return [h0, h1, h2]



def BOUNDS(tier):
    return {"types": 4, "full_alphabet_depth": 2 if tier == "quick" else 3, "ops_per_type": len(ops_for("int", tier)),
            "reduced_alphabet_depth": 3 if tier == "quick" else 4, "reduced_ops": len(reduced_ops("int")),
            "reduced_histories_start_with": "an accepted create"}


def reduced_ops(t):
    """follow-up alphabet for depth-3 histories"""
    keep = []
    for op in ops_for(t, "quick"):
        k, n, c, _p = op
        if k in ("clear", "dict-del", "reopen") or (k == "subsection" and n == "p"):
            keep.append(op)
        elif k in ("assign", "extend") and (c in ("list2", "list3", "None", "scalar") or c.endswith("@1") or c.startswith("bad:pure-") and not c.endswith("2")):
            keep.append(op)
        elif k == "dict-set" and c in ("list", "bad:pure"):
            keep.append(op)
        elif k == "create" and c in ("list2", "dtype"):
            keep.append(op)
        elif k == "attr" and c.startswith("unit"):
            keep.append(op)
    return keep


def cases(tier):
    for t in TYPES:
        for n in (7, 8, 9, 16, 17, 100, 255, 256, 1000, 1024, 1025, 2049) if tier == "thorough" else (8, 9, 17, 300, 1100):
            yield {"k": "sizes", "type": t, "n": n}
        yield {"k": "sizes", "type": t, "n": 3, "soak": True}
        for j in range(3):
            yield {"type": t, "long": j, "tier": tier, "depth": 0, "first": 0}
    for t in TYPES:
        ops = ops_for(t, tier)
        for i in range(len(ops)):
            # a case = all histories starting with ops[i] (prefix closed)
            yield {"type": t, "first": i, "depth": 2 if tier == "quick" else 3, "tier": tier, "follow": "full"}
            if ops[i][0] == "create" and not ops[i][2].startswith("bad") and ops[i][2] != "empty-list":
                yield {"type": t, "first": i, "depth": 3 if tier == "quick" else 4, "tier": tier, "follow": "reduced", "only_len": True}


# ------------------------------------------------------------------ model

class SecModel:
    def __init__(self):
        self.props = [["Z", "int", [5], {}]]          # name, type, values, attrs   (creation order)
        self.subs = []

    def get(self, name):
        for p in self.props:
            if p[0] == name:
                return p
        return None

    def key(self):
        return jhash([[p[0], p[1], [repr(v) for v in p[2]], p[3]] for p in self.props] + [self.subs])


def list_type(vals):
    ts = {tname(v) for v in vals}
    return ts.pop() if len(ts) == 1 else None


def model_step(m, op):
    """returns expected outcome: 'ok' or an exception-class tuple; mutates m on ok"""
    kind, name, cls, pay = op
    p = m.get(name)
    if kind == "create":
        if p is not None:
            return (DuplicateName,)
        if cls == "dtype":
            # type comes from the case: encoded in the payload being None -> set by caller
            raise AssertionError
        if cls == "empty-list":
            return (TypeError,)
        vals = pay if isinstance(pay, list) else [pay]
        t = list_type(vals)
        if t is None:
            return (TypeError,)
        m.props.append([name, t, list(vals), {}])
        return "ok"
    if kind in ("assign", "extend", "clear", "attr"):
        if p is None:
            return "skip"
    if kind == "assign":
        if pay is None or (isinstance(pay, (list, tuple)) and len(pay) == 0):
            p[2] = []
            return "ok"
        vals = list(pay) if isinstance(pay, (list, tuple, np.ndarray)) else [pay]
        if list_type(vals) != p[1]:
            return (TypeError,)
        p[2] = list(vals)
        return "ok"
    if kind == "extend":
        vals = list(pay) if isinstance(pay, (list, tuple, np.ndarray)) else [pay]
        if list_type(vals) != p[1]:
            return (TypeError,)
        p[2] = p[2] + list(vals)
        return "ok"
    if kind == "clear":
        p[2] = []
        return "ok"
    if kind == "attr":
        a = cls.split("=")[0]
        exp = None
        if pay is not None:
            exp = [e for (an, v, e) in ATTRS if an == a and v == pay][0]
        p[3][a] = exp
        return "ok"
    if kind == "dict-set":
        vals = pay if isinstance(pay, list) else [pay]
        if p is None:
            t = list_type(vals)
            if t is None:
                return (TypeError,)
            if name in m.subs:
                pass
            m.props.append([name, t, list(vals), {}])
            return "ok"
        if list_type(vals) != p[1]:
            return (TypeError,)
        p[2] = list(vals)
        return "ok"
    if kind == "dict-del":
        if p is None:
            return (KeyError,)
        m.props.remove(p)
        return "ok"
    if kind == "subsection":
        if name in m.subs:
            return (DuplicateName,)
        m.subs.append(name)
        return "ok"
    if kind == "reopen":
        return "ok"
    raise AssertionError(kind)


# ------------------------------------------------------------------ implementation side

def impl_step(sec, op, t):
    kind, name, cls, pay = op
    if kind == "create":
        if cls == "dtype":
            sec.create_property(name, NIXT[t])
        else:
            sec.create_property(name, pay)
    elif kind == "assign":
        sec.props[name].values = pay
    elif kind == "extend":
        sec.props[name].extend_values(pay)
    elif kind == "clear":
        sec.props[name].delete_values()
    elif kind == "attr":
        setattr(sec.props[name], cls.split("=")[0], pay)
    elif kind == "dict-set":
        sec[name] = pay
    elif kind == "dict-del":
        del sec[name]
    elif kind == "subsection":
        sec[name] = nix.S("t")


def verify(r, sec, m, t, opk, stage):
    def bad(check, msg):
        r.viol("C10|%s|%s|%s|%s" % (t, opk, stage, check), "type %s after %s (%s): %s" % (t, opk, stage, msg), {})
        return False
    r.transitions += 1
    try:
        names = [p.name for p in sec.props]
        if names != [p[0] for p in m.props]:
            return bad("property-order", "properties %r, model %r" % (names, [p[0] for p in m.props]))
        for name, pt, vals, attrs in m.props:
            prop = sec.props[name]
            got = list(prop.values)
            if not leq(got, vals):
                return bad("values", "%s.values = %r, expected %r" % (name, got, vals))
            if dtype_name(prop.data_type) != pt:
                return bad("data_type", "%s.data_type = %r, expected %s" % (name, prop.data_type, pt))
            for a, exp in attrs.items():
                g = getattr(prop, a)
                if g != exp or (exp is not None and type(g) is not type(exp) and not isinstance(g, (np.floating, float))):
                    return bad("attr-" + a, "%s.%s = %r, expected %r" % (name, a, g, exp))
            # dictionary-style lookup
            dv = sec[name]
            expd = vals[0] if len(vals) == 1 else vals
            if isinstance(dv, list):
                okd = isinstance(expd, list) and leq(dv, expd)
            else:
                okd = not isinstance(expd, list) and veq(dv, expd)
            if not okd:
                return bad("dict-get", "sec[%r] = %r, expected %r" % (name, dv, expd))
            if name not in sec:
                return bad("dict-contains", "%r in sec is False" % name)
        for sub in m.subs:
            if sub not in sec:
                return bad("dict-contains-subsection", "%r in sec is False for a subsection" % sub)
            if m.get(sub) is None:
                got = sec[sub]
                if not isinstance(got, nix.Section) or got.name != sub:
                    return bad("dict-get-subsection", "sec[%r] is %r" % (sub, got))
        if [s_.name for s_ in sec.sections] != m.subs:
            return bad("subsections", "subsections %r, model %r" % ([s_.name for s_ in sec.sections], m.subs))
        for absent in ("nope", "q" if m.get("q") is None else "nope2"):
            if absent in sec:
                return bad("dict-contains-absent", "%r in sec is True" % absent)
        n = len(sec)
        if n not in (len(m.props), len(m.props) + len(m.subs)):
            return bad("len", "len(sec) = %d with %d properties and %d subsections" % (n, len(m.props), len(m.subs)))
        items = [(k, type(v).__name__) for k, v in sec.items()]
        exp_items = [(p[0], "Property") for p in m.props] + [(s_, "Section") for s_ in m.subs]
        if items != exp_items:
            return bad("items", "items() = %r, expected %r" % (items, exp_items))
        it = [x.name for x in sec]
        if it != [k for k, _ in exp_items]:
            return bad("iteration", "iteration gives %r" % it)
    except Exception as e:  # noqa
        return bad("reader-raises-" + type(e).__name__, "a reader raises %s: %s" % (type(e).__name__, str(e)[:100]))
    return True


def many(t, n, k=0):
    """n values of type t (cycling through the type's alphabet, shifted by k)"""
    flat = [v for lst in VALS[t] for v in lst]
    return [flat[(i + k) % len(flat)] for i in range(n)]


def run_sizes(case):
    """value lists and sections that are NOT small: lists longer than the initial storage of a property (8), two- and
    three-digit lengths, growth and shrinkage across those sizes, and sections with a dozen properties / subsections"""
    r = R()
    t, n = case["type"], case["n"]
    env.install_seams()
    env.reset_execution()
    path = env.fresh_path("c10s_")
    f = nix.File.open(path, nix.FileMode.Overwrite)
    try:
        sec = f.create_section("s", "t")
        sec.create_property("Z", [5])
        m = SecModel()
        hist = [("create", "p", "list", many(t, n)), ("extend", "p", "list", many(t, 1, 1)), ("extend", "p", "list", many(t, 9, 2)),
                ("assign", "p", "list", many(t, max(1, n // 2), 3)), ("assign", "p", "list", many(t, n + 5, 4)), ("reopen", "-", "-", None),
                ("extend", "p", "list", many(t, 300, 5)), ("assign", "p", "list", many(t, 3, 6)), ("clear", "p", "-", None),
                ("extend", "p", "list", many(t, n, 7))]
        # a dozen further properties and subsections (creation order != name order: q0, q1, q10, q11, q2 ...)
        for i in range(12):
            hist.append(("create", "q%d" % i, "list", many(t, i + 1, i)))
        for i in range(12):
            hist.append(("subsection", "u%d" % i, "-", None))
        hist += [("dict-del", "q10", "-", None), ("dict-del", "q3", "-", None), ("create", "q3", "list", many(t, 2)), ("reopen", "-", "-", None)]
        if case.get("soak"):
            # a long history on short lists: set / extend / clear / set again / reopen, the property deleted and created
            # again under the same name, three times over
            hist = []
            for cyc in range(3):
                hist += [("create", "p", "list", many(t, 2, cyc)), ("extend", "p", "list", many(t, 1, cyc + 1)), ("clear", "p", "-", None),
                         ("assign", "p", "list", many(t, 3, cyc + 2)), ("extend", "p", "list", many(t, 2, cyc + 3)), ("reopen", "-", "-", None),
                         ("dict-set", "p", "list", many(t, 1, cyc + 4)), ("assign", "p", "None", None), ("extend", "p", "list", many(t, 4, cyc + 5)),
                         ("subsection", "sub%d" % cyc, "-", None), ("dict-del", "p", "-", None)]
            hist += [("create", "p", "list", many(t, 2, 9)), ("reopen", "-", "-", None)]
        # long candidate lists with ONE value of another type somewhere in the middle / at the end: refused, nothing changes
        for u in ([] if case.get("soak") else TYPES):
            if u == t:
                continue
            for pos in (n // 2, max(n, 300) - 1):
                for how in ("assign", "extend"):
                    cand = many(t, max(n, 300), 8)
                    cand[pos] = ONE[u]
                    hist.insert(3, (how, "p", "bad:long-mixed-%s@%d" % (u, pos), cand))
        for op in hist:
            r.evals += 1
            r.nontrivial += 1
            exp = model_step(m, op)
            opk = "sizes-n%d:%s:%s" % (n, op[0], op[2] if str(op[2]).startswith("bad") else (len(op[3]) if isinstance(op[3], list) else op[2]))
            if str(op[2]).startswith("bad"):
                try:
                    impl_step(sec, op, t)
                    bexc = None
                except Exception as e:  # noqa
                    bexc = e
                if exp == "ok" or bexc is None or not isinstance(bexc, TypeError):
                    r.viol("C10|%s|sizes|long-mixed-list|%s" % (t, "accepted" if bexc is None else "refused-with-" + type(bexc).__name__),
                           "type %s: %s of %d values with one %s at position %s: %r" % (t, op[0], len(op[3]), op[2].split("-")[-1], op[2].split("@")[-1], bexc), {})
                    return r
                if not verify(r, sec, m, t, opk, "in-session"):
                    return r
                continue
            if op[0] == "reopen":
                f.close()
                f = nix.File.open(path, nix.FileMode.ReadWrite)
                sec = f.sections["s"]
                exc = None
            else:
                try:
                    impl_step(sec, op, t)
                    exc = None
                except Exception as e:  # noqa
                    exc = e
            if exp != "ok" or exc is not None:
                r.viol("C10|%s|%s|%s" % (t, opk, "raised-" + type(exc).__name__ if exc else "model-refuses"),
                       "type %s: %r (%d values) gave %r, model says %r" % (t, op[:3], len(op[3]) if isinstance(op[3], list) else 0, exc, exp), {})
                return r
            if not verify(r, sec, m, t, opk, "in-session"):
                return r
        r.traces = 1
        r.outcomes.add("sizes")
        return r
    finally:
        env.safe_close(f)
        env.rm(path)


def run_case(case):
    if case.get("k") == "sizes":
        return run_sizes(case)
    r = R()
    t = case["type"]
    allops = ops_for(t, case["tier"])
    ops = allops if case.get("follow", "full") == "full" else reduced_ops(t)
    only_len = case.get("only_len", False)
    env.install_seams()
    env.reset_execution()
    path = env.fresh_path("c10_")
    f = nix.File.open(path, nix.FileMode.Overwrite)
    counter = [0]

    def fresh_section():
        counter[0] += 1
        sec = f.create_section("s%d" % counter[0], "t")
        sec.create_property("Z", [5])
        return sec

    def run_hist(hist):
        nonlocal f
        r.evals += 1
        if f.mode == nix.FileMode.ReadOnly:
            raise AssertionError
        sec = fresh_section()
        secname = sec.name
        m = SecModel()
        dead = []
        wrote = False
        for i, op in enumerate(hist):
            last = i == len(hist) - 1
            nv = len(r.violations)
            opk = "%s:%s" % (op[0], op[2])
            if op[0] == "create" and op[2] == "dtype":
                exp = (DuplicateName,) if m.get(op[1]) is not None else "ok"
                if exp == "ok":
                    m.props.append([op[1], t, [], {}])
            else:
                exp = model_step(m, op)
            if exp == "skip":
                return None         # op not applicable (no such property): history not in the space
            if op[0] == "reopen":
                f.close()
                f = nix.File.open(path, nix.FileMode.ReadWrite)
                sec = f.sections[secname]
                exc = None
            else:
                if op[0] == "dict-del" and exp == "ok":
                    # the id of the property that is about to go: looked up once now, must be unknown afterwards
                    pid = sec.props[op[1]].id
                    if pid not in sec or sec.props[pid].name != op[1]:
                        r.viol("C10|%s|%s|live-id-not-found" % (t, opk), "id of an existing property is not a member", {"hist": hist})
                    dead.append(pid)
                try:
                    impl_step(sec, op, t)
                    exc = None
                except Exception as e:  # noqa
                    exc = e
            ok = True
            if exp == "ok":
                if exc is not None:
                    r.viol("C10|%s|%s|raised-%s" % (t, opk, type(exc).__name__),
                           "type %s: %r raised %s: %s" % (t, op[:3], type(exc).__name__, str(exc)[:120]), {"hist": hist})
                    ok = False
                else:
                    wrote = True
                    r.outcomes.add("ok:" + op[0])
            else:
                if exc is None:
                    r.viol("C10|%s|%s|accepted-but-must-be-refused" % (t, opk),
                           "type %s: %r was accepted; expected %s" % (t, op, exp[0].__name__), {"hist": hist})
                    ok = False
                elif not isinstance(exc, exp):
                    r.viol("C10|%s|%s|refused-with-%s" % (t, opk, type(exc).__name__),
                           "type %s: %r refused with %s, expected %s" % (t, op, type(exc).__name__, exp[0].__name__), {"hist": hist})
                    ok = False
                else:
                    r.outcomes.add("refused:" + type(exc).__name__)
            if ok:
                ok = verify(r, sec, m, t, opk, "in-session")
            if ok and dead:
                for pid in dead:
                    try:
                        got = sec[pid]
                        found = True
                    except KeyError:
                        found = False
                    if found or pid in sec or pid in sec.props:
                        r.viol("C10|%s|%s|in-session|id-of-deleted-property-is-a-member" % (t, opk),
                               "type %s: after %r the id of a property deleted earlier is a key of the section (in: %r, lookup succeeded: %r)" % (
                                   t, op[:3], pid in sec, found), {"hist": hist})
                        ok = False
                        break
            if not ok:
                if not last and "long" not in case:
                    del r.violations[nv:]
                    r.bump("pruned_after_earlier_violation")
                return False
        r.states.add(m.key())
        r.traces += 1
        if wrote:
            r.nontrivial += 1
        return (secname, m, "%s:%s" % (hist[-1][0], hist[-1][2]))

    try:
        pending = []
        depth = case["depth"]
        first_op = allops[case["first"]] if case["first"] < len(allops) else None
        stack = [[first_op]] if "long" not in case else [long_histories(t)[case["long"]]]
        while stack:
            hist = stack.pop()
            res = run_hist(hist)
            if res is None or res is False:
                continue
            pending.append(res)
            if len(hist) < depth:
                # the argument-form variants (tuples, NumPy arrays) are explored at the first two positions; at the
                # third position of the thorough tier only the base alphabet is used (keeps 4 x 80^3 histories feasible)
                nxt = ops if len(hist) < 2 else [o for o in ops if "np-" not in o[2] and o[2] != "tuple"]
                for op in nxt:
                    stack.append(hist + [op])
            if len(pending) >= 100:
                f.close()
                f = nix.File.open(path, nix.FileMode.ReadOnly)
                for secname, m, opk in pending:
                    verify(r, f.sections[secname], m, t, opk, "after-reopen-ro")
                f.close()
                env.rm(path)
                f = nix.File.open(path, nix.FileMode.Overwrite)     # fresh file: keeps lookups cheap
                pending = []
        if pending:
            f.close()
            f = nix.File.open(path, nix.FileMode.ReadOnly)
            for secname, m, opk in pending:
                verify(r, f.sections[secname], m, t, opk, "after-reopen-ro")
        return r
    finally:
        env.safe_close(f)
        env.rm(path)
