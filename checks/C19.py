"""C19 - timestamps: creation time is fixed, update time follows attribute changes.

E1: every operation of the alphabet (every settable attribute / mutator of
every entity kind) from the rich and mini seeds, histories up to depth d,
under both settings of auto_update_timestamps (given at open, toggled in the
history), with the library clock replaced by a harness counter that advances
before every operation.  The (created_at, updated_at) pair of EVERY entity is
compared before/after every step.  Plus a structured cover of whole-second
timestamps 1970-2100 for force/read round trips.
"""
import calendar
import datetime
import json

from mc import env
from mc import explorer, walker, ops as O
from mc.core import R, jhash
import numpy as np
import nixio as nix
from nixio.util import util as nutil

LEVEL = "model_checking"
RULE = ("all histories of length <= d over the alphabet of mc/ops.py plus AUTO(on|off) toggles, from the seeds rich "
        "(d=1, full alphabet, both settings at open) and mini (d=2, thin alphabet), clock advanced by 3 s before every "
        "operation; timestamps of all entities compared before/after each step; round trip of forced timestamps: "
        "00:00:00, 12:34:56, 23:59:59 of every day 1970-2100 and every second of selected days through "
        "time_to_str/str_to_time, 500 values through a real entity incl. reopen; non-trivial = step whose operation "
        "is one of the listed descriptive changes; distinct by construction")
ASSUMPTIONS = [
    "the clock is the harness counter (module attribute seam); it never goes backwards",
    "an attribute 'change' that stores the value already present may or may not touch updated_at",
    "operations outside the statement's list (links, creation, deletion, data writes, dimension attributes) are only "
    "required to keep created_at fixed and updated_at non-decreasing (and to change nothing with auto-update off)",
]
CHUNK = 8
LISTED_ATTRS = {"type", "definition", "label", "unit", "expansion_origin", "polynom_coefficients", "position", "extent",
                "units", "reference", "repository", "link_type"}
THIN = {"thin": True, "names": ["sig"], "nsecs": 1, "narr": 1, "nsrc": 1}


def BOUNDS(tier):
    return {"rich": {"depth": 1, "auto": ["on", "off"]}, "mini": {"depth": "2 thin (same-entity follow-up)" if tier == "quick" else "2 full alphabet", "auto": ["on", "off", "toggled"]},
            "roundtrip_values": "3 per day 1970-2100 + every second of %d days" % (2 if tier == "quick" else 10)}


def cases(tier):
    out = []
    for auto in (True, False):
        for h in explorer.enumerate_histories("rich", 1, {"delete_modes": False}):
            if h[-1][0] != "reopen":
                out.append({"k": "hist", "seed": "rich", "ops": h, "auto": auto})
    if tier == "quick":
        hs = explorer.enumerate_histories("mini", 2, THIN, follow=explorer.same_entity_or_reopen)
    else:
        # depth 2 over the full alphabet, depth 3 over the thin alphabet (after a 'set' only the same entity / REOPEN)
        hs = explorer.enumerate_histories("mini", 2, {})
    for h in hs:
        if len(h) < 2:
            continue
        out.append({"k": "hist", "seed": "mini", "ops": h, "auto": True})
        if len(h) == 2 and h[-1][0] in ("set", "set_ref", "append_dim", "set_meta", "link", "pvalues", "write"):
            out.append({"k": "hist", "seed": "mini", "ops": h, "auto": False})
            # toggled mid-history: off at open, switched on before the last op (and vice versa)
            out.append({"k": "hist", "seed": "mini", "ops": h, "auto": False, "toggle_before_last": True})
            out.append({"k": "hist", "seed": "mini", "ops": h, "auto": True, "toggle_before_last": False})
    years = list(range(1970, 2101))
    for y0 in range(1970, 2101, 10):
        out.append({"k": "roundtrip", "years": [y0, min(y0 + 9, 2100)]})
    days = [(1970, 1, 1), (2000, 2, 29)] if tier == "quick" else [(1970, 1, 1), (1972, 2, 29), (1999, 12, 31), (2000, 2, 29),
                                                                 (2001, 9, 9), (2016, 12, 31), (2038, 1, 19), (2069, 6, 15),
                                                                 (2100, 2, 28), (2100, 12, 31)]
    for dday in days:
        out.append({"k": "seconds", "day": list(dday)})
    out.append({"k": "entity-roundtrip"})
    for auto in (True, False):
        out.append({"k": "sizes-and-frames", "auto": auto})
        out.append({"k": "toggles", "start": auto})
    from checks import C12
    for i in range(len(C12.FAULTS)):
        out.append({"k": "fault-then-set", "i": i, "seed": "mini"})
        if tier == "thorough" or any(n in ("b2", "df", "mtag", "foreign", "foreign_src", "rdim", "da2") for n in C12.FAULTS[i]["needs"]):
            out.append({"k": "fault-then-set", "i": i, "seed": "rich"})
    for via in ("same-handle", "other-handle"):
        for dt in (0, 1):
            out.append({"k": "force-then-set", "via": via, "dt": dt})
    for kind in ("array", "tag", "multi_tag", "data_frame", "block", "section", "property"):
        for how in ("set", "force"):
            for dt in (0, 2):
                out.append({"k": "replace", "kind": kind, "how": how, "dt": dt})
    return out


def stamps(tree):
    """id -> (kind, created_at, updated_at) for every entity of a walk"""
    out = {}

    def go(t):
        if isinstance(t, dict):
            if "$k" in t and isinstance(t.get("id"), dict) and "created_at" in t:
                out[t["id"].get("$id")] = (t["$k"], t.get("created_at"), t.get("updated_at"))
            for v in t.values():
                go(v)
        elif isinstance(t, list):
            for v in t:
                go(v)
    go(tree)
    return out


def listed(op, tk):
    if op[0] == "set":
        return op[2] in LISTED_ATTRS and "Dimension" not in tk
    if op[0] == "set_ref":
        return True
    if op[0] == "append_dim":
        return True
    return False


def run_hist(case, r):
    seed, hist = case["seed"], case["ops"]
    auto = case["auto"]
    m = explorer.seed_model(seed)
    s = O.Session(build=explorer.SEEDS[seed], auto_ts=auto)
    try:
        for i, op in enumerate(hist):
            last = i == len(hist) - 1
            if last and "toggle_before_last" in case:
                auto = not case["auto"]
                s.f.auto_update_timestamps = auto
                s.auto_ts = auto
            env.CLOCK.advance(3)
            now = env.CLOCK()
            tk = explorer.target_kind(m, op)
            target_id = None
            if op[0] != "reopen":
                try:
                    tgt = s.resolve(op[1])
                    target_id = tgt.id if hasattr(tgt, "id") and not isinstance(tgt, nix.File) else None
                except Exception:
                    target_id = None
            before = stamps(walker.walk(s.f, core=True))
            m2 = m.clone()
            refused = False
            try:
                O.model_apply(m2, op)
            except O.Refused:
                refused = True
            changed = (not refused) and json.dumps(m2.t, sort_keys=True, default=repr) != json.dumps(m.t, sort_keys=True, default=repr)
            try:
                O.impl_apply(s, op, None)
                exc = None
            except Exception as e:  # noqa
                exc = e
            r.transitions += 1
            if not refused and exc is None:
                m = m2
            elif not refused and exc is not None:
                return      # a model/impl disagreement is C02's business
            after = stamps(walker.walk(s.f, core=True))
            if not last:
                continue
            r.evals += 1
            is_listed = listed(op, tk) and exc is None and not refused
            if is_listed:
                r.nontrivial += 1
            asig = "auto-on" if auto else "auto-off"
            if "toggle_before_last" in case:
                asig += "-toggled"
            opk = explorer.opsig(op)
            r.outcomes.add("%s:%s:%s" % (asig, "listed" if is_listed else "other", "exc" if exc else "ok"))
            for eid, (kind, c0, u0) in before.items():
                if eid not in after:
                    continue
                _k, c1, u1 = after[eid]
                if c1 != c0:
                    r.viol("C19|%s|%s|%s|created_at-changed|%s" % (opk, tk, asig, "target" if eid == target_id else "other-" + kind),
                           "%s: created_at of a %s changed from %r to %r" % (json.dumps(op, ensure_ascii=False), kind, c0, c1), {})
                    return
                if isinstance(u0, int) and isinstance(u1, int) and u1 < u0:
                    r.viol("C19|%s|%s|%s|updated_at-decreased|%s" % (opk, tk, asig, kind),
                           "%s: updated_at of a %s moved backwards (%r -> %r)" % (json.dumps(op, ensure_ascii=False), kind, u0, u1), {})
                    return
                if not auto and u1 != u0:
                    r.viol("C19|%s|%s|%s|updated_at-changed-with-auto-off|%s" % (opk, tk, asig, "target" if eid == target_id else "other-" + kind),
                           "%s with automatic timestamps off: updated_at of a %s changed (%r -> %r)" % (
                               json.dumps(op, ensure_ascii=False), kind, u0, u1), {})
                    return
                if auto and is_listed:
                    if eid == target_id:
                        if u1 != now and (changed or u1 != u0):
                            r.viol("C19|%s|%s|%s|own-updated_at-not-set" % (opk, tk, asig),
                                   "%s with automatic timestamps on: updated_at of the changed %s is %r, the clock says %r" % (
                                       json.dumps(op, ensure_ascii=False), kind, u1, now), {})
                            return
                    elif u1 != u0:
                        r.viol("C19|%s|%s|%s|other-entity-updated|%s" % (opk, tk, asig, kind),
                               "%s: updated_at of another entity (%s) moved (%r -> %r)" % (json.dumps(op, ensure_ascii=False), kind, u0, u1), {})
                        return
        r.traces += 1
        r.states.add(jhash([case["seed"], case["auto"], hist[-1][:3]]))
    finally:
        s.close()


def check_rt(r, t, cls):
    r.evals += 1
    try:
        s_ = nutil.time_to_str(t)
        back = nutil.str_to_time(s_)
    except Exception as e:  # noqa
        r.viol("C19|roundtrip|%s|raises-%s" % (cls, type(e).__name__), "time_to_str/str_to_time raise for %d" % t, {"t": t})
        return False
    exp = datetime.datetime(1970, 1, 1) + datetime.timedelta(seconds=t)
    txt = s_.decode() if isinstance(s_, bytes) else s_
    if back != t:
        r.viol("C19|roundtrip|%s|not-identity" % cls, "str_to_time(time_to_str(%d)) = %r (%s)" % (t, back, txt), {"t": t})
        return False
    if txt != exp.strftime("%Y%m%dT%H%M%S"):
        r.viol("C19|roundtrip|%s|wrong-utc-text" % cls, "time_to_str(%d) = %s, UTC is %s" % (t, txt, exp.strftime("%Y%m%dT%H%M%S")), {"t": t})
        return False
    return True


def run_roundtrip(case, r):
    y0, y1 = case["years"]
    d = datetime.date(y0, 1, 1)
    end = datetime.date(y1, 12, 31)
    while d <= end:
        base = calendar.timegm(d.timetuple())
        for off in (0, 12 * 3600 + 34 * 60 + 56, 86399):
            r.nontrivial += 1
            if not check_rt(r, base + off, "daily"):
                return
        d += datetime.timedelta(days=1)
    r.outcomes.add("daily")


def run_seconds(case, r):
    y, mo, dd = case["day"]
    base = calendar.timegm(datetime.date(y, mo, dd).timetuple())
    for sec in range(86400):
        r.nontrivial += 1
        if not check_rt(r, base + sec, "every-second"):
            return
    r.outcomes.add("seconds")


def run_entity(case, r):
    env.install_seams()
    env.reset_execution()
    path = env.fresh_path("c19_")
    f = nix.File.open(path, nix.FileMode.Overwrite)
    try:
        b = f.create_block("b", "t")
        sec = f.create_section("s", "t")
        p = sec.create_property("p", [1])
        ents = {"block": b, "section": sec, "property": p, "array": b.create_data_array("d", "t", data=[1.0]),
                "tag": b.create_tag("t", "t", [0.0]), "group": b.create_group("g", "t"), "source": b.create_source("q", "t")}
        vals = [0, 1, 59, 86399, 86400, 951782400, 2 ** 31 - 1, 2 ** 31, 4102444799, 1600000000] + \
               [calendar.timegm(datetime.date(y, 2, 28).timetuple()) + 86399 for y in range(1970, 2101, 3)]
        expected = {}
        for i, t in enumerate(vals * 7):
            kind = list(ents)[i % len(ents)]
            e = ents[kind]
            r.evals += 1
            r.nontrivial += 1
            e.force_created_at(t)
            e.force_updated_at(t + 1)
            if e.created_at != t or e.updated_at != t + 1:
                r.viol("C19|force|%s|read-back-differs" % kind, "forced %d/%d on a %s, read back %r/%r" % (t, t + 1, kind, e.created_at, e.updated_at), {"t": t})
                return
            expected[kind] = (t, t + 1)
        for t in vals:
            r.evals += 1
            f.force_created_at(t)
            f.force_updated_at(t + 1)
            if f.created_at != t or f.updated_at != t + 1:
                r.viol("C19|force|file|read-back-differs", "forced %d/%d on the file, read back %r/%r" % (t, t + 1, f.created_at, f.updated_at), {"t": t})
                return
        f.force_created_at(vals[3])
        f.force_updated_at(vals[4])
        f.close()
        f = nix.File.open(path, nix.FileMode.ReadOnly)
        b = f.blocks["b"]
        ents = {"block": b, "section": f.sections["s"], "property": f.sections["s"].props["p"], "array": b.data_arrays["d"],
                "tag": b.tags["t"], "group": b.groups["g"], "source": b.sources["q"]}
        for kind, (c, u) in expected.items():
            r.evals += 1
            if ents[kind].created_at != c or ents[kind].updated_at != u:
                r.viol("C19|force|%s|after-reopen-differs" % kind, "after reopen %s has %r/%r, forced %r/%r" % (
                    kind, ents[kind].created_at, ents[kind].updated_at, c, u), {})
        if f.created_at != vals[3] or f.updated_at != vals[4]:
            r.viol("C19|force|file|after-reopen-differs", "file timestamps %r/%r after reopen" % (f.created_at, f.updated_at), {})
        r.outcomes.add("entity-roundtrip")
    finally:
        env.safe_close(f)
        env.rm(path)


def run_force_then_set(case, r):
    """an explicit force (through the same or another handle) followed by an attribute change in the same or the
    next clock second: the change must stamp the current time"""
    from mc import seeds
    env.install_seams()
    env.reset_execution()
    path = env.fresh_path("c19f_")
    f = nix.File.open(path, nix.FileMode.Overwrite)
    try:
        seeds.build_mini(f)
        b = f.blocks["blk"]
        getters = {"block": lambda: f.blocks["blk"], "array": lambda: b.data_arrays["sig"], "tag": lambda: b.tags["tag"],
                   "group": lambda: b.groups["grp"], "source": lambda: b.sources["src"], "section": lambda: f.sections["sec"],
                   "nested-section": lambda: f.sections["sec"].sections["sec"]}
        for kind, get in getters.items():
            for attr, v1, v2 in (("definition", "one", "two"), ("type", "t-one", "t-two")):
                hA = get()
                hB = get()
                env.CLOCK.advance(10)
                T = env.CLOCK()
                setattr(hA, attr, v1)                      # hA stamps T
                r.evals += 1
                r.nontrivial += 1
                if hA.updated_at != T:
                    r.viol("C19|force-then-set|%s|first-set-not-stamped" % kind, "%s.%s: updated_at %r, clock %r" % (kind, attr, hA.updated_at, T), {})
                    return
                (hA if case["via"] == "same-handle" else hB).force_updated_at(T - 1000)
                if get().updated_at != T - 1000:
                    r.viol("C19|force-then-set|%s|force-not-read-back" % kind, "forced %d, read %r" % (T - 1000, get().updated_at), {})
                    return
                env.CLOCK.advance(case["dt"])
                now = env.CLOCK()
                setattr(hA, attr, v2)
                r.transitions += 3
                got = get().updated_at
                r.outcomes.add("force-then-set:%s:dt%d" % (case["via"], case["dt"]))
                if got != now:
                    r.viol("C19|force-then-set|%s|%s|dt%d|change-after-force-not-stamped" % (kind, case["via"], case["dt"]),
                           "%s: after force_updated_at(%d) through the %s, setting %s at clock %d leaves updated_at = %r" % (
                               kind, T - 1000, case["via"], attr, now, got), {})
                    return
    finally:
        env.safe_close(f)
        env.rm(path)


def run_sizes_and_frames(case, r):
    """operations that are NOT in the small-history alphabet: many values assigned to a property, data frame growth and
    writes, arrays appended many times.  With automatic timestamps off nothing may change any stamp and the switch
    must still be off afterwards; with them on no creation time moves and no update time goes backwards."""
    auto = case["auto"]
    s = O.Session(build=explorer.SEEDS["rich"], auto_ts=auto)
    try:
        f = s.f
        b = f.blocks["blk"]
        sec = f.sections["sec"]
        steps = [
            ("property-assign-100", lambda: setattr(sec.props["pint"], "values", list(range(100)))),
            ("property-assign-700", lambda: setattr(sec.props["pint"], "values", list(range(700)))),
            ("property-extend-600", lambda: sec.props["pstr"].extend_values(["v%d" % i for i in range(600)])),
            ("frame-append-600-rows", lambda: b.data_frames["frame"].append_rows([(i, "r%d" % i, 0.5 * i) for i in range(600)])),
            ("frame-units", lambda: setattr(b.data_frames["frame"], "units", ["mV", None, "ms"])),
            ("frame-append_column", lambda: b.data_frames["frame"].append_column(list(range(len(b.data_frames["frame"]))), "extra", datatype=np.int64)),
            ("frame-write_column", lambda: b.data_frames["frame"].write_column([7] * len(b.data_frames["frame"]), name="n")),
            ("frame-write_rows", lambda: b.data_frames["frame"].write_rows([(1, "a", 0.5, 9)], [0])),
            ("array-24-appends", lambda: [b.data_arrays["evt"].append(np.arange(60.0) + 100 * k) for k in range(24)]),
            ("array-resize", lambda: setattr(b.data_arrays["sig"], "data_extent", (40, 4))),
            ("create-multi-tag-with-extents", lambda: b.create_multi_tag("mtx", "t", [[0.0, 1.0]], extents=[[1.0, 1.0]])),
            ("create-frame", lambda: b.create_data_frame("f2", "t", col_dict={"c": int}, data=[(1,), (2,)])),
        ]
        for name, fn in steps:
            env.CLOCK.advance(5)
            now = env.CLOCK()
            before = stamps(walker.walk(f, core=True))
            try:
                fn()
            except Exception as e:  # noqa
                r.viol("C19|%s|raises-%s" % (name, type(e).__name__), "%s raises %s: %s" % (name, type(e).__name__, str(e)[:100]), {})
                return
            r.evals += 1
            r.nontrivial += 1
            r.transitions += 1
            after = stamps(walker.walk(f, core=True))
            for eid, (kind, c0, u0) in before.items():
                if eid not in after:
                    continue
                _k, c1, u1 = after[eid]
                if c1 != c0:
                    r.viol("C19|%s|%s|created_at-changed|%s" % (name, "auto-on" if auto else "auto-off", kind),
                           "%s: created_at of a %s changed from %r to %r" % (name, kind, c0, c1), {})
                    return
                if isinstance(u0, int) and isinstance(u1, int) and u1 < u0:
                    r.viol("C19|%s|updated_at-decreased|%s" % (name, kind), "%s: updated_at of a %s moved backwards" % (name, kind), {})
                    return
                if not auto and u1 != u0:
                    r.viol("C19|%s|auto-off|updated_at-changed|%s" % (name, kind),
                           "%s with automatic timestamps off: updated_at of a %s changed (%r -> %r)" % (name, kind, u0, u1), {})
                    return
            if f.auto_update_timestamps != auto:
                r.viol("C19|%s|%s|switch-changed" % (name, "auto-on" if auto else "auto-off"),
                       "%s left the file's automatic-timestamp switch at %r (it was %r)" % (name, f.auto_update_timestamps, auto), {})
                return
            # probe: a listed attribute change on an unrelated entity behaves according to the switch
            env.CLOCK.advance(5)
            now = env.CLOCK()
            g = b.groups["grp"]
            u0 = g.updated_at
            g.definition = "probe-" + name
            if (auto and g.updated_at != now) or (not auto and g.updated_at != u0):
                r.viol("C19|%s|%s|later-attribute-change-stamps-wrongly" % (name, "auto-on" if auto else "auto-off"),
                       "after %s a definition change on a group moved updated_at %r -> %r (clock %r, automatic timestamps %s)" % (
                           name, u0, g.updated_at, now, "on" if auto else "off"), {})
                return
        r.traces += 1
    finally:
        s.close()


def run_toggles(case, r):
    """the automatic-timestamp switch toggled back and forth eight times; after every toggle one listed attribute of every
    entity kind is changed: stamped exactly when the switch is on"""
    s = O.Session(build=explorer.SEEDS["rich"], auto_ts=case["start"])
    try:
        f = s.f
        b = f.blocks["blk"]
        auto = case["start"]
        targets = [("Block", lambda: b, "definition"), ("DataArray", lambda: b.data_arrays["sig"], "label"), ("Tag", lambda: b.tags["tag"], "definition"),
                   ("MultiTag", lambda: b.multi_tags["mtag"], "definition"), ("Group", lambda: b.groups["grp"], "definition"),
                   ("Source", lambda: b.sources["src"], "definition"), ("Section", lambda: f.sections["sec"], "repository"),
                   ("Property", lambda: f.sections["sec"].props["pint"], "definition"), ("DataFrame", lambda: b.data_frames["frame"], "definition")]
        for k in range(8):
            auto = not auto
            f.auto_update_timestamps = auto
            if k == 4:
                s.auto_ts = auto
                s.reopen("rw")
                f = s.f
                b = f.blocks["blk"]
            for kind, get, attr in targets:
                env.CLOCK.advance(3)
                now = env.CLOCK()
                e = get()
                u0, c0 = e.updated_at, e.created_at
                setattr(e, attr, "toggle-%d" % k)
                r.evals += 1
                r.nontrivial += 1
                r.transitions += 1
                e2 = get()
                if e2.created_at != c0 or (auto and e2.updated_at != now) or (not auto and e2.updated_at != u0):
                    r.viol("C19|toggles|%s|%s|toggle-%d|wrong-stamp" % (kind, "auto-on" if auto else "auto-off", k + 1),
                           "after %d toggles (switch %s) setting %s of a %s: updated_at %r -> %r (clock %r), created_at %r -> %r" % (
                               k + 1, "on" if auto else "off", attr, kind, u0, e2.updated_at, now, c0, e2.created_at), {})
                    return
        r.traces += 1
    finally:
        s.close()


def run_fault_then_set(case, r):
    """a refused call (fault catalogue of C12) must not disturb the timestamp machinery: afterwards every listed
    attribute change still stamps its own entity with the current time and nothing else"""
    from checks import C12
    fa = C12.FAULTS[case["i"]]
    seed = case["seed"]
    m = explorer.seed_model(seed)
    s = O.Session(build=explorer.SEEDS[seed], auto_ts=True)
    try:
        ctx = C12.Ctx(s.f)
        if any(getattr(ctx, n) is None for n in fa["needs"]):
            return
        env.CLOCK.advance(3)
        try:
            fa["fn"](ctx)
            return                  # accepted: outside this scenario
        except Exception:
            pass
        r.transitions += 1
        sets = [op for op in O.enabled(m, THIN) if op[0] == "set" and op[3] is not None
                and listed(op, explorer.target_kind(m, op))]
        before = stamps(walker.walk(s.f, core=True))
        last_set = {}
        for op in sets:
            tk = explorer.target_kind(m, op)
            try:
                O.model_apply(m, op)
            except O.Refused:
                continue
            env.CLOCK.advance(3)
            now = env.CLOCK()
            try:
                O.impl_apply(s, op, None)
            except Exception:
                return              # C02's business
            r.evals += 1
            r.nontrivial += 1
            r.transitions += 1
            tgt = s.resolve(op[1])
            last_set[tgt.id] = now
            if tgt.updated_at != now:
                r.viol("C19|after-refused:%s|%s|%s|own-updated_at-not-set" % (fa["site"], explorer.opsig(op), tk),
                       "after the refused %s (%s), %s left updated_at of the changed %s at %r (clock %r)" % (
                           fa["site"], fa["cls"], json.dumps(op, ensure_ascii=False), tk, tgt.updated_at, now), {"fault": [fa["site"], fa["cls"]]})
                return
        after = stamps(walker.walk(s.f, core=True))
        for eid, (kind, c0, u0) in before.items():
            if eid not in after:
                continue
            exp = (c0, last_set.get(eid, u0))
            if after[eid][1:] != exp:
                r.viol("C19|after-refused:%s|%s|stamps-differ-after-the-changes" % (fa["site"], kind),
                       "after the refused %s and one change per listed attribute, a %s has stamps %r, expected %r" % (
                           fa["site"], kind, after[eid][1:], exp), {})
                return
        r.traces += 1
    finally:
        s.close()


def run_replace(case, r):
    """the entity at a path is changed (or its stamp forced), deleted, and the NAME is taken again by a copy of a
    template that carries old stamps; then the new entity is changed (forced) within the same clock second (dt 0) or
    a later one: the change stamps the clock (the forced second is read back), also after reopening"""
    env.install_seams()
    env.reset_execution()
    path = env.fresh_path("c19r_")
    f = nix.File.open(path, nix.FileMode.Overwrite)
    f2 = None
    path2 = None
    OLDC, OLDU = 900000000, 1000000000
    try:
        # the templates live in a second file: a kept-id copy and its source in ONE file share their fate on deletion
        # (known finding of C20), which is not what this scenario is about
        path2 = env.fresh_path("c19t_")
        f2 = nix.File.open(path2, nix.FileMode.Overwrite)
        b = f.create_block("blk", "t")
        tb = f2.create_block("templates", "t")
        sroot = f.create_section("sec", "t")
        troot = f2.create_section("templates", "t")
        pos = b.create_data_array("pos", "t", data=np.array([0.0, 1.0]))
        tpos = tb.create_data_array("pos", "t", data=np.array([0.0, 1.0]))
        col = dict([("a", np.int64)])
        kinds = {
            "array": (lambda n: b.create_data_array(n, "t", data=np.array([1.0, 2.0])), lambda: tb.create_data_array("f_array", "t", data=np.array([5.0])),
                      lambda n, F: b.create_data_array(n, copy_from=F), lambda: b.data_arrays, "label"),
            "tag": (lambda n: b.create_tag(n, "t", [0.0]), lambda: tb.create_tag("f_tag", "t", [1.0]),
                    lambda n, F: b.create_tag(n, copy_from=F), lambda: b.tags, "definition"),
            "multi_tag": (lambda n: b.create_multi_tag(n, "t", pos), lambda: tb.create_multi_tag("f_mtag", "t", tpos),
                          lambda n, F: b.create_multi_tag(n, copy_from=F), lambda: b.multi_tags, "type"),
            "data_frame": (lambda n: b.create_data_frame(n, "t", col_dict=col), lambda: tb.create_data_frame("f_df", "t", col_dict=col, data=[(1,), (2,)]),
                           lambda n, F: b.create_data_frame(n, copy_from=F), lambda: b.data_frames, "definition"),
            "block": (lambda n: f.create_block(n, "t"), lambda: f2.create_block("f_block", "t"),
                      lambda n, F: f.create_block(n, copy_from=F), lambda: f.blocks, "definition"),
            "section": (lambda n: sroot.create_section(n, "t"), lambda: troot.create_section("f_section", "t"),
                        lambda n, F: sroot.copy_section(F, name=n) if "name" in sroot.copy_section.__code__.co_varnames else None,
                        lambda: sroot.sections, "definition"),
            "property": (lambda n: sroot.create_property(n, [1]), lambda: troot.create_property("f_prop", [2]),
                         lambda n, F: sroot.create_property(n, copy_from=F), lambda: sroot.props, "definition"),
        }
        mk, mkF, cp, cont, attr = kinds[case["kind"]]
        F = mkF()
        F.force_created_at(OLDC)
        F.force_updated_at(OLDU)
        name = "work"
        for rnd in range(3):
            E = mk(name)
            env.CLOCK.advance(7)
            T = env.CLOCK()
            if case["how"] == "set":
                setattr(E, attr, "first%d" % rnd)
            else:
                E.force_updated_at(T + 50)
            del cont()[name]
            try:
                N = cp(name, F)
            except Exception as e:  # noqa
                r.bump("replace-copy-refused:" + type(e).__name__)
                return
            if N is None:
                r.bump("replace-copy-not-available")
                return
            r.transitions += 4
            r.evals += 1
            r.nontrivial += 1
            env.CLOCK.advance(case["dt"])
            now = env.CLOCK()
            if case["how"] == "set":
                setattr(N, attr, "second%d" % rnd)
                want = now
            else:
                N.force_updated_at(T + 50)
                want = T + 50
            got = cont()[name].updated_at
            r.outcomes.add("replace:%s:%s" % (case["how"], "stamped"))
            if got != want:
                r.viol("C19|replace-by-copy|%s|%s|dt%d|%s" % (case["kind"], case["how"], case["dt"],
                                                             "change-not-stamped" if case["how"] == "set" else "forced-second-not-read-back"),
                       "%s 'work' changed, deleted, re-created as a copy of a template (updated_at %d), then %s at clock %d: updated_at reads %r, expected %r" % (
                           case["kind"], OLDU, "changed" if case["how"] == "set" else "forced to %d" % want, now, got, want), {})
                return
            if F.updated_at != OLDU or F.created_at != OLDC:
                r.viol("C19|replace-by-copy|%s|template-stamps-changed" % case["kind"], "stamps of the template changed: %r %r" % (F.created_at, F.updated_at), {})
                return
            if rnd == 1:
                f.close()
                f = nix.File.open(path, nix.FileMode.ReadWrite)
                b, sroot = f.blocks["blk"], f.sections["sec"]
                pos = b.data_arrays["pos"]
                if cont()[name].updated_at != want:
                    r.viol("C19|replace-by-copy|%s|%s|reopened" % (case["kind"], case["how"]), "after reopening updated_at reads %r, expected %r" % (cont()[name].updated_at, want), {})
                    return
            del cont()[name]
        r.traces += 1
    finally:
        env.safe_close(f)
        env.rm(path)
        env.safe_close(f2)
        if path2:
            env.rm(path2)


def run_case(case):
    r = R()
    if case["k"] == "toggles":
        run_toggles(case, r)
        return r
    if case["k"] == "sizes-and-frames":
        run_sizes_and_frames(case, r)
        return r
    if case["k"] == "fault-then-set":
        run_fault_then_set(case, r)
        return r
    {"force-then-set": run_force_then_set, "replace": run_replace, "hist": run_hist, "roundtrip": run_roundtrip, "seconds": run_seconds, "entity-roundtrip": run_entity}[case["k"]](case, r)
    return r
