"""C08 - tagged data is exactly the samples whose coordinates lie in the tagged region.

E2: referenced arrays of rank 1-3 with every mix of sampled/range/set
descriptors x position/extent classes per axis x both stop rules x unit
prefix pairs x tags and multi-tags (1-D and 2-D position arrays) x the three
feature link types.  Oracle: the set of stored samples whose coordinates
(exact rationals) lie in the region.
"""
import itertools
from fractions import Fraction as Fr

import numpy as np

from mc import env
from mc.core import R
import nixio as nix
from nixio.exceptions import OutOfBounds, IncompatibleDimensions

LEVEL = "exploration"
RULE = ("rank 1: 3 sampled + 3 range + 2 set descriptor variants x 6 position classes x {no extent, 0, reaching a "
        "sample, ending between samples, past the end} x 2 stop rules; rank 2: all 9 descriptor-kind pairs x the "
        "product of per-axis (position, extent) classes; rank 3: all 27 kind triples x reduced classes; positions "
        "shorter than the rank; 25 tag-unit x dimension-unit prefix pairs on sampled and range axes; multi-tags "
        "with 1-D and 2-D position arrays, with/without extents, every row incl. out of range; features of the 3 "
        "link types on tags and multi-tags; non-trivial = region that selects a proper, non-empty subset; "
        "distinct by construction")
ASSUMPTIONS = [
    "all coordinates/positions are dyadic rationals; with unit scaling (inexact factors) region boundaries are "
    "kept at least a quarter sample away from every sample",
    "a region that is not contained in [first, last] stored coordinate may be answered with the contained samples "
    "or with an error / invalid view (the statement allows both); an empty selection must be an error or invalid",
    "Tag.feature_data with link type 'indexed' returns the whole array (a tag has no position index)",
]
CHUNK = 1
WALL_CAP = {"quick": 900, "thorough": 7200}
RULES = [("excl", nix.SliceMode.Exclusive), ("incl", nix.SliceMode.Inclusive)]

# per-axis descriptor variants: (kind, params)
SAMPLED = [("sampled", Fr(1, 2), None), ("sampled", Fr(2), Fr(-1)), ("sampled", Fr(1, 4), Fr(3, 2))]
RANGE = {3: [("range", [Fr(0), Fr(1), Fr(3)]), ("range", [Fr(-2), Fr(-1, 2), Fr(4)]), ("range", [Fr(1, 2), Fr(1), Fr(3, 2)])],
         4: [("range", [Fr(0), Fr(1, 2), Fr(2), Fr(5, 2)]), ("range", [Fr(-3), Fr(-1), Fr(0), Fr(6)]), ("range", [Fr(1), Fr(2), Fr(3), Fr(4)])],
         5: [("range", [Fr(0), Fr(1), Fr(3), Fr(9, 2), Fr(5)]), ("range", [Fr(-1), Fr(0), Fr(1, 4), Fr(1, 2), Fr(8)]), ("range", [Fr(2), Fr(3), Fr(4), Fr(5), Fr(6)])]}
SETD = [("set", True), ("set", False)]


def variants(kind, n):
    if kind == "sampled":
        return SAMPLED
    if kind == "range":
        return RANGE[n]
    return SETD


def coords(spec, n):
    if spec[0] == "sampled":
        off = spec[2] if spec[2] is not None else Fr(0)
        return [off + i * spec[1] for i in range(n)]
    if spec[0] == "range":
        return list(spec[1])
    return [Fr(i) for i in range(n)]


def add_dim(da, spec, n, unit=None):
    if spec[0] == "sampled":
        d = da.append_sampled_dimension(float(spec[1]))
        if spec[2] is not None:
            d.offset = float(spec[2])
        if unit:
            d.unit = unit
    elif spec[0] == "range":
        d = da.append_range_dimension([float(t) for t in spec[1]])
        if unit:
            d.unit = unit
    else:
        da.append_set_dimension(["l%d" % i for i in range(n)] if spec[1] else None)


# position / extent classes for one axis, from its coordinates
def pos_classes(c, reduced=False):
    n = len(c)
    mid = n // 2
    gap = (c[mid] - c[mid - 1]) if n > 1 else Fr(1)
    out = [("on-first", c[0]), ("on-mid", c[mid]), ("on-last", c[-1]),
           ("between", c[mid - 1] + gap / 4 if n > 1 else c[0] + Fr(1, 4)),
           ("before", c[0] - 1), ("after", c[-1] + 1)]
    if reduced:
        out = [out[1], out[3], out[5]]
    return out


def ext_classes(c, p, reduced=False):
    later = [x for x in c if x > p]
    out = [("zero", Fr(0))]
    if later:
        out.append(("reach-sample", later[0] - p))
        nxt = later[1] if len(later) > 1 else later[0] + 1
        out.append(("end-between", (later[0] + (nxt - later[0]) / 2) - p))
    else:
        out.append(("end-between", Fr(1, 2)))
    out.append(("past-end", c[-1] - p + 2 if c[-1] >= p else Fr(2)))
    if len(later) > 1:
        out.append(("reach-last", c[-1] - p))
    if reduced:
        out = [out[0], out[1], out[-1] if out[-1][0] == "past-end" else out[3]]
    return out


def select(c, p, e, rule):
    """indices of stored samples in the region"""
    if e is None or e == 0:
        return [i for i, x in enumerate(c) if x == p]
    if rule == "incl":
        return [i for i, x in enumerate(c) if p <= x <= p + e]
    return [i for i, x in enumerate(c) if p <= x < p + e]


def contained(c, p, e):
    hi = p + (e or 0)
    return c[0] <= p and hi <= c[-1]


def observe(fn):
    try:
        v = fn()
    except (OutOfBounds, IndexError):
        return "error", None
    except IncompatibleDimensions:
        return "incompatible", None
    except Exception as exc:  # noqa
        return "raises-" + type(exc).__name__, None
    try:
        if not v.valid:
            got = np.asarray(v[:])
            return ("invalid" if got.size == 0 else "invalid-with-data"), got
        return "data", np.asarray(v[:])
    except (OutOfBounds, IndexError):
        return "error", None
    except Exception as exc:  # noqa
        return "read-raises-" + type(exc).__name__, None


def judge(r, sig_prefix, ctx, data, sel, inside, st, got):
    """sel: per-axis index lists (whole axis = all); inside: region contained in the stored coordinates"""
    r.evals += 1
    empty = any(len(s_) == 0 for s_ in sel)
    if not empty:
        exp = data[tuple(slice(s_[0], s_[-1] + 1) for s_ in sel)]
        if exp.size not in (0, data.size):
            r.nontrivial += 1
    r.outcomes.add("%s:%s:%s" % (sig_prefix.split("|")[1], "empty" if empty else ("inside" if inside else "partly-outside"), st))
    refusal = st in ("error", "invalid")
    if empty:
        if not refusal:
            r.viol("%s|empty-selection|%s" % (sig_prefix, st),
                   "%s: no stored sample lies in the region but the result is %s %r" % (ctx, st, None if got is None else got.tolist()), {})
        return
    if st == "data":
        if got.shape != exp.shape or not np.array_equal(got, exp):
            r.viol("%s|%s|wrong-data" % (sig_prefix, "inside" if inside else "partly-outside"),
                   "%s: returned %r (shape %s), the samples in the region are %r (shape %s)" % (
                       ctx, got.tolist(), got.shape, exp.tolist(), exp.shape), {})
        return
    if refusal and not inside:
        return
    r.viol("%s|%s|%s" % (sig_prefix, "inside" if inside else "partly-outside", st),
           "%s: samples %r lie in the region, result is %s" % (ctx, exp.tolist(), st), {})


class S:
    """one file per case.  Besides the block under test ("b") the file holds a DECOY block created first, whose
    entities carry the names the scenarios use ("d", "tag", "mt", "pos", "ext") but another geometry and other
    units; it is evaluated once before the scenario and once after it.  Anything the library remembers under a
    name (instead of per entity) then serves the wrong geometry to one of the two."""

    def __init__(self, r=None):
        env.install_seams()
        env.reset_execution()
        self.r = r
        self.path = env.fresh_path("c08_")
        self.f = nix.File.open(self.path, nix.FileMode.Overwrite)
        b0 = self.f.create_block("a-decoy", "t")
        dd = b0.create_data_array("d", "t", data=np.arange(10.0) * -1.0)
        dd.append_sampled_dimension(7.0, unit="kV", offset=100.0)
        dt_ = b0.create_tag("tag", "t", [107.0])
        dt_.extent = [14.0]
        dt_.units = ["kV"]
        dt_.references.append(dd)
        dp = b0.create_data_array("pos", "t", data=np.array([114.0]))
        dx = b0.create_data_array("ext", "t", data=np.array([7.0]))
        dm = b0.create_multi_tag("mt", "t", dp)
        dm.extents = dx
        dm.units = ["kV"]
        dm.references.append(dd)
        self.decoy = (dt_, dm)
        self.decoy_check("before")
        self.b = self.f.create_block("b", "t")

    def decoy_check(self, when):
        dt_, dm = self.decoy
        got_t = np.asarray(dt_.tagged_data(0)[:]).tolist()
        got_m = np.asarray(dm.tagged_data(0, 0)[:]).tolist()
        if (got_t != [-1.0, -2.0] or got_m != [-2.0]) and self.r is not None:
            self.r.viol("C08|decoy-block-same-names|%s" % when,
                        "the tag / multi tag of ANOTHER block (same entity names, other geometry) return %r / %r %s the "
                        "scenario, expected [-1,-2] / [-2] (end excluded)" % (got_t, got_m, when), {})

    def close(self):
        try:
            if self.r is not None and not self.r.violations:
                self.decoy_check("after")
        except Exception as e:  # noqa
            if self.r is not None:
                self.r.viol("C08|decoy-block-same-names|raises-%s" % type(e).__name__, "evaluating the decoy block raises %s" % e, {})
        env.safe_close(self.f)
        env.rm(self.path)


def mk_array(s, name, shape, specs, units=None):
    data = (np.arange(int(np.prod(shape)), dtype=np.float64) + 1).reshape(shape)
    da = s.b.create_data_array(name, "t", data=data)
    for i, (spec, n) in enumerate(zip(specs, shape)):
        add_dim(da, spec, n, None if units is None else units[i])
    return da, data


def kinds_of(specs):
    return "+".join(sp[0] for sp in specs)


# ------------------------------------------------------------------ scenarios

def BOUNDS(tier):
    return {"rank1": "all variants x 6 positions x 5 extents", "rank2": "9 kind pairs x full class product (1 variant per kind; 3 in thorough)",
            "rank3": "27 kind triples x reduced classes", "unit_pairs": 25, "multi_tag_rows": "0..n incl. out of range"}


def cases(tier):
    shp1 = [3, 4, 5]
    for n in shp1:
        for kind in ("sampled", "range", "set"):
            for vi in range(len(variants(kind, n))):
                yield {"k": "tag", "shape": [n], "specs": [[kind, vi]], "reduced": False}
    nv = 3 if tier == "thorough" else 1
    for k1 in ("sampled", "range", "set"):
        for k2 in ("sampled", "range", "set"):
            for v1 in range(min(nv, len(variants(k1, 3)))):
                for v2 in range(min(nv, len(variants(k2, 4)))):
                    yield {"k": "tag", "shape": [3, 4], "specs": [[k1, v1], [k2, v2]], "reduced": False}
    for ks in itertools.product(("sampled", "range", "set"), repeat=3):
        yield {"k": "tag", "shape": [3, 4, 3], "specs": [[k, (i % len(variants(k, n)))] for i, (k, n) in enumerate(zip(ks, (3, 4, 3)))],
               "reduced": True}
    for kind in ("sampled", "range"):
        yield {"k": "units", "kind": kind}
    for rank in (2, 3):
        for ks in itertools.product(("sampled", "range", "set"), repeat=rank):
            if "set" in ks and any(k != "set" for k in ks):
                for shift in ((0, 1, 2, 3) if (tier == "thorough" or rank == 2) else (0, 1)):
                    yield {"k": "units-mixed", "kinds": list(ks), "shift": shift, "setunit": "none" if shift % 2 == 0 else ""}
    for k1 in ("sampled", "range", "set"):
        yield {"k": "mtag", "specs": [[k1, 0]], "shape": [5], "pos2d": False}
        yield {"k": "mtag", "specs": [[k1, 0]], "shape": [5], "pos2d": True}
        for k2 in ("sampled", "range", "set"):
            yield {"k": "mtag", "specs": [[k1, 0], [k2, 0]], "shape": [4, 3], "pos2d": True}
            yield {"k": "mtag", "specs": [[k1, 0], [k2, 0]], "shape": [4, 3], "pos2d": False}
    for sub in ([0, 1, 2, 3, 5], [0, 2, 3], [1, 4]):
        yield {"k": "closeticks", "ticks": sub}
    for kind in ("sampled", "range"):
        for dt in ("uint8", "int8", "int16", "uint16"):
            yield {"k": "mtag-int", "kind": kind, "dtype": dt}
    for kind in ("sampled", "range"):
        for dt in ("int16", "int32", "uint16", "int8"):
            for tagunit, dimunit in (("ms", "us"), ("s", "ms")):
                if dt == "int8" and False:
                    continue
                yield {"k": "mtag-int-units", "kind": kind, "dtype": dt, "tagunit": tagunit, "dimunit": dimunit}
    for n in (300, 1100) + ((3000,) if tier == "thorough" else ()):
        for rep in (1, 2):
            yield {"k": "longticks", "n": n, "rep": rep}
    for kind in ("sampled", "range", "set"):
        yield {"k": "feat", "kind": kind}
    for iv in (0.1, 0.3, 0.7, 1e-3):
        for off in (None, 0.1, -0.7):
            yield {"k": "nondyadic", "iv": iv, "off": off}
    for kind in ("sampled", "range"):
        yield {"k": "multiref", "kind": kind}


def resolve(case):
    shape = tuple(case["shape"])
    specs = [variants(k, n)[vi] for (k, vi), n in zip(case["specs"], shape)]
    return shape, specs


def run_tag(case, r):
    shape, specs = resolve(case)
    rank = len(shape)
    s = S(r)
    try:
        da, data = mk_array(s, "d", shape, specs)
        cs = [coords(sp, n) for sp, n in zip(specs, shape)]
        tag = s.b.create_tag("tag", "t", [0.0])
        tag.references.append(da)
        kk = kinds_of(specs)
        red = case["reduced"]
        # per-axis (position, extent) menus
        menus = []
        for c in cs:
            menu = []
            for pn, p in pos_classes(c, red):
                for en, e in ext_classes(c, p, red):
                    menu.append((pn, p, en, e))
            menus.append(menu)
        for k in range(1, rank + 1):           # position length (shorter than the rank included)
            if red and k not in (1, rank):
                continue
            # (a) no extent at all
            for combo in itertools.product(*[pos_classes(c, red) for c in cs[:k]]):
                ps = [p for _n, p in combo]
                tag.position = [float(p) for p in ps]
                tag.extent = None
                for rn, rule in RULES:
                    sel = [select(cs[a], ps[a], None, rn) for a in range(k)] + [list(range(shape[a])) for a in range(k, rank)]
                    inside = all(contained(cs[a], ps[a], None) for a in range(k))
                    st, got = observe(lambda: tag.tagged_data(0, rule))
                    judge(r, "C08|tag|%s|len%d/%d|noextent|%s|%s" % (kk, k, rank, rn, "+".join(n for n, _p in combo)),
                          "tag position %s no extent on %s %s" % ([float(p) for p in ps], kk, shape), data, sel, inside, st, got)
            # (b) with extents
            for combo in itertools.product(*menus[:k]):
                ps = [c_[1] for c_ in combo]
                es = [c_[3] for c_ in combo]
                tag.position = [float(p) for p in ps]
                tag.extent = [float(e) for e in es]
                for rn, rule in RULES:
                    sel = [select(cs[a], ps[a], es[a], rn) for a in range(k)] + [list(range(shape[a])) for a in range(k, rank)]
                    inside = all(contained(cs[a], ps[a], es[a]) for a in range(k))
                    st, got = observe(lambda: tag.tagged_data(0, rule))
                    judge(r, "C08|tag|%s|len%d/%d|%s|%s|%s" % (kk, k, rank, "+".join(c_[2] for c_ in combo), rn,
                                                                  "+".join(c_[0] for c_ in combo)),
                          "tag position %s extent %s (%s) on %s %s" % ([float(p) for p in ps], [float(e) for e in es], rn, kk, shape),
                          data, sel, inside, st, got)
    finally:
        s.close()


PREF = {"": 0, "m": -3, "u": -6, "k": 3, "M": 6}


def run_units(case, r):
    kind = case["kind"]
    n = 5
    spec = variants(kind, n)[0]
    for tp in PREF:
        for dp in PREF:
            s = S(r)
            try:
                da, data = mk_array(s, "d", (n,), [spec], units=[dp + "s"])
                c = coords(spec, n)
                tag = s.b.create_tag("tag", "t", [0.0])
                tag.references.append(da)
                tag.units = [tp + "s"]
                scale = Fr(10) ** (PREF[tp] - PREF[dp])      # tag unit -> dimension unit
                def mid(i):
                    return c[i] + (c[i + 1] - c[i]) / 2
                # boundaries half a sample away from every sample (the scaling factors are inexact floats)
                regs = [(mid(0), mid(1) - mid(0)), (mid(0), mid(3) - mid(0)), (c[0] + (c[1] - c[0]) / 4, (c[1] - c[0]) / 4),
                        (mid(2), None), (mid(1), mid(2) - mid(1))]
                for p, e in regs:
                    tag.position = [float(p / scale)]
                    tag.extent = None if e is None else [float(e / scale)]
                    for rn, rule in RULES:
                        sel = [select(c, p, e, rn)]
                        st, got = observe(lambda: tag.tagged_data(0, rule))
                        judge(r, "C08|tag-units|%s|%s->%s|%s" % (kind, tp or "none", dp or "none", rn),
                              "tag unit %ss, dimension unit %ss, region [%s, +%s] in dimension units on %s" % (tp, dp, float(p), e, kind),
                              data, sel, contained(c, p, e), st, got)
            finally:
                s.close()


MIXPAIRS = [("", "m"), ("m", ""), ("k", "u"), ("M", "M")]


def run_units_mixed(case, r):
    """rank 2-3 arrays mixing dimensions WITH a unit (tag prefix != dimension prefix) and category dimensions without
    one, in every order: the conversion factor of one dimension must never be applied to another"""
    kinds = case["kinds"]                      # e.g. ["sampled", "set", "range"]
    n = 4
    specs, units, tunits, scales = [], [], [], []
    ui = 0
    for k in kinds:
        specs.append(variants(k, n)[0])
        if k == "set":
            units.append(None)
            tunits.append(case["setunit"])     # "none" or "" : both mean 'no unit'
            scales.append(Fr(1))
        else:
            tp, dp = MIXPAIRS[(ui + case["shift"]) % len(MIXPAIRS)]
            ui += 1
            units.append(dp + "s")
            tunits.append(tp + "s")
            scales.append(Fr(10) ** (PREF[tp] - PREF[dp]))
    s = S(r)
    try:
        shape = tuple([n] * len(kinds))
        da, data = mk_array(s, "d", shape, specs, units=units)
        cs = [coords(sp, n) for sp in specs]
        tag = s.b.create_tag("tag", "t", [0.0] * len(kinds))
        tag.references.append(da)
        tag.units = tunits

        def regions(c):
            def mid(i):
                return c[i] + (c[i + 1] - c[i]) / 2
            return [(mid(0), mid(2) - mid(0)), (mid(1), mid(2) - mid(1)), (mid(0), mid(1) - mid(0))]
        for combo in itertools.product(*[regions(c) for c in cs]):
            tag.position = [float(p / sc) for (p, _e), sc in zip(combo, scales)]
            tag.extent = [float(e / sc) for (_p, e), sc in zip(combo, scales)]
            for rn, rule in RULES:
                sel = [select(c, p, e, rn) for c, (p, e) in zip(cs, combo)]
                inside = all(contained(c, p, e) for c, (p, e) in zip(cs, combo))
                st, got = observe(lambda: tag.tagged_data(0, rule))
                judge(r, "C08|tag-units-mixed|%s|%s|%s" % ("+".join(kinds), "/".join("%s->%s" % (a, b or "-") for a, b in zip(tunits, units)), rn),
                      "tag units %r on dimensions %s with units %r, region %r (in dimension units)" % (
                          tunits, "+".join(kinds), units, [(float(p), float(e)) for p, e in combo]),
                      data, sel, inside, st, got)
    finally:
        s.close()


def run_mtag(case, r):
    shape, specs = resolve(case)
    rank = len(shape)
    s = S(r)
    try:
        da, data = mk_array(s, "d", shape, specs)
        cs = [coords(sp, n) for sp, n in zip(specs, shape)]
        kk = kinds_of(specs)
        k = rank if case["pos2d"] else 1
        # rows: built from the class menus (first 4 classes per axis)
        rows = []
        for combo in itertools.product(*[[(pn, p, en, e) for pn, p in pos_classes(c)[:4] for en, e in ext_classes(c, p)[:3]]
                                         for c in cs[:k]]):
            rows.append(combo)
        rows = rows[: 3 * 12]
        for start in range(0, len(rows), 3):
            grp = rows[start:start + 3]
            if not grp:
                continue
            for with_ext in (True, False):
                pos = np.array([[float(c_[1]) for c_ in row] for row in grp])
                ext = np.array([[float(c_[3]) for c_ in row] for row in grp])
                if not case["pos2d"]:
                    pos, ext = pos[:, 0], ext[:, 0]
                nm = "p%d%s" % (start, "e" if with_ext else "n")
                pa = s.b.create_data_array(nm, "t", data=pos)
                mt = s.b.create_multi_tag("mt" + nm, "t", pa)
                if with_ext:
                    mt.extents = s.b.create_data_array(nm + "x", "t", data=ext)
                mt.references.append(da)
                for i, row in enumerate(grp):
                    ps = [c_[1] for c_ in row]
                    es = [c_[3] if with_ext else None for c_ in row]
                    for rn, rule in RULES:
                        sel = [select(cs[a], ps[a], es[a], rn) for a in range(k)] + [list(range(shape[a])) for a in range(k, rank)]
                        inside = all(contained(cs[a], ps[a], es[a]) for a in range(k))
                        st, got = observe(lambda: mt.tagged_data(i, 0, rule))
                        judge(r, "C08|mtag|%s|%s|%s|%s|row%d" % (kk, "2d" if case["pos2d"] else "1d", "ext" if with_ext else "noext", rn, i),
                              "multi-tag row %d position %s extent %s (%s) on %s %s" % (i, [float(p) for p in ps],
                                                                                       [None if e is None else float(e) for e in es], rn, kk, shape),
                              data, sel, inside, st, got)
                # row index out of range
                r.evals += 1
                st, got = observe(lambda: mt.tagged_data(len(grp), 0))
                r.outcomes.add("mtag:row-out-of-range:" + st)
                if st not in ("error", "invalid"):
                    r.viol("C08|mtag|%s|row-out-of-range|%s" % (kk, st),
                           "multi-tag position index %d with %d rows gives %s" % (len(grp), len(grp), st), {})
    finally:
        s.close()


def run_mtag_int(case, r):
    """positions and extents stored in NARROW INTEGER arrays; position + extent exceeds the element type's range
    although each value fits (the region arithmetic must not happen in the stored type)"""
    dt = case["dtype"]
    base, step = {"uint8": (100, 40), "int8": (-100, 50), "int16": (20000, 5000), "uint16": (40000, 8000)}[dt]
    n = 6
    kind = case["kind"]
    c = [Fr(base + i * step) for i in range(n)]
    s = S(r)
    try:
        data = (np.arange(n, dtype=np.float64) + 1)
        da = s.b.create_data_array("d", "t", data=data)
        if kind == "sampled":
            d_ = da.append_sampled_dimension(float(step))
            d_.offset = float(base)
        else:
            da.append_range_dimension([float(x) for x in c])
        # rows: (position, extent) on samples; the last rows end beyond the element type's maximum
        info = np.iinfo(dt)
        cand = [(c[i], c[j] - c[i]) for i in range(n) for j in range(i, n)]
        cand = [(p, e) for p, e in cand if info.min <= p <= info.max and info.min <= e <= info.max]
        over = [pe for pe in cand if pe[0] + pe[1] > info.max]          # the sum leaves the element type's range
        rows = over[:4] + [pe for pe in cand if pe not in over][:3]
        if not over:
            raise AssertionError("no overflowing row for %s" % dt)
        pos = np.array([int(p) for p, _e in rows], dtype=dt)
        ext = np.array([int(e) for _p, e in rows], dtype=dt)
        pa = s.b.create_data_array("pos", "t", data=pos)
        xa = s.b.create_data_array("ext", "t", data=ext)
        mt = s.b.create_multi_tag("mt", "t", pa)
        mt.extents = xa
        mt.references.append(da)
        for i, (p, e) in enumerate(rows):
            for rn, rule in RULES:
                sel = [select(c, p, e, rn)]
                st, got = observe(lambda: mt.tagged_data(i, 0, rule))
                judge(r, "C08|mtag-int|%s|%s|%s|row%d" % (kind, dt, rn, i),
                      "multi-tag with %s positions/extents, row %d: position %s extent %s (%s), sum %s" % (dt, i, int(p), int(e), rn, int(p + e)),
                      data, sel, contained(c, p, e), st, got)
    finally:
        s.close()


def run_mtag_int_units(case, r):
    """narrow integer positions/extents given in a LARGER unit than the dimension's (ms on a us axis, s on a ms axis):
    the converted position exceeds the element type's range although the stored numbers are small"""
    dt, kind = case["dtype"], case["kind"]
    n = 60
    step = 1000                      # dimension unit: 1/1000 of the tag unit
    # samples half a step away from the whole multiples: no region border coincides with a sample (the unit factors are
    # inexact floats, see ASSUMPTIONS)
    c = [Fr(i * step + 500) for i in range(n)]
    s = S(r)
    try:
        data = np.arange(float(n)) + 1
        da = s.b.create_data_array("d", "t", data=data)
        if kind == "sampled":
            da.append_sampled_dimension(float(step), unit=case["dimunit"], offset=500.0)
        else:
            da.append_range_dimension([float(x) for x in c], unit=case["dimunit"])
        rows = [(40, 5), (10, 20), (33, 0), (50, 9), (1, 58)]          # in tag units; x1000 in dimension units
        pa = s.b.create_data_array("pos", "t", data=np.array([p for p, _e in rows], dtype=dt))
        xa = s.b.create_data_array("ext", "t", data=np.array([e for _p, e in rows], dtype=dt))
        mt = s.b.create_multi_tag("mt", "t", pa)
        mt.extents = xa
        mt.units = [case["tagunit"]]
        mt.references.append(da)
        for i, (p, e) in enumerate(rows):
            P, E_ = Fr(p * 1000), Fr(e * 1000)
            for rn, rule in RULES:
                sel = [select(c, P, E_, rn)]
                st, got = observe(lambda: mt.tagged_data(i, 0, rule))
                judge(r, "C08|mtag-int-units|%s|%s|%s|row%d" % (kind, dt, rn, i),
                      "multi-tag with %s positions in %s on a %s axis, row %d: position %d extent %d (%s)" % (dt, case["tagunit"], case["dimunit"], i, p, e, rn),
                      data, sel, contained(c, P, E_), st, got)
    finally:
        s.close()


def run_longticks(case, r):
    """range dimensions with more than 1024 ticks; regions that start and end exactly on ticks, between ticks, at the ends"""
    n, rep = case["n"], case["rep"]
    c = [Fr(i // rep, 2) for i in range(n)]
    s = S(r)
    try:
        data = np.arange(float(n)) + 1
        da = s.b.create_data_array("d", "t", data=data)
        da.append_range_dimension([float(x) for x in c])
        tag = s.b.create_tag("tag", "t", [0.0])
        tag.references.append(da)
        marks = [m_ for m_ in (0, 2, 100, 254, 256, 1022, 1024, n - 12) if 0 <= m_ < n]
        regs = []
        for i in marks:
            j = min(n - 1, i + 10)
            regs += [(c[i], c[j] - c[i]), (c[i], None), (c[i] + Fr(1, 8), c[j] - c[i]), (c[i], c[j] - c[i] + Fr(1, 8))]
        for p, e in regs:
            tag.position = [float(p)]
            tag.extent = None if e is None else [float(e)]
            for rn, rule in RULES:
                sel = [select(c, p, e, rn)]
                st, got = observe(lambda: tag.tagged_data(0, rule))
                judge(r, "C08|tag|range-%d-ticks%s|%s|%s" % (n, "-repeated" if rep > 1 else "", "point" if not e else "region", rn),
                      "%d ticks, region [%r, +%r] (%s)" % (n, float(p), None if e is None else float(e), rn),
                      data, sel, contained(c, p, e), st, got)
    finally:
        s.close()


def run_feat(case, r):
    kind = case["kind"]
    n = 5
    spec = variants(kind, n)[0]
    s = S(r)
    try:
        da, data = mk_array(s, "d", (n,), [spec])
        # one feature array per link type, with different content (x10, x100, x1000)
        LTS = ("Tagged", "Untagged", "Indexed")
        fas, fdatas = [], []
        for k, lt in enumerate(LTS):
            fa, fd = mk_array(s, "f" + lt, (n, 2), [spec, ("set", False)])
            fd = fd * (10 ** (k + 1))
            fa[:] = fd
            fas.append(fa)
            fdatas.append(fd)
        c = coords(spec, n)
        tag = s.b.create_tag("tag", "t", [0.0])
        tag.references.append(da)
        for lt, fa in zip(LTS, fas):
            tag.create_feature(fa, getattr(nix.LinkType, lt))
        pa = s.b.create_data_array("pos", "t", data=np.array([float(c[1]), float(c[0]), float(c[3])]))
        xa = s.b.create_data_array("ext", "t", data=np.array([float(c[2] - c[1]), 0.0, float(c[4] - c[3])]))
        mt = s.b.create_multi_tag("mt", "t", pa)
        mt.extents = xa
        mt.references.append(da)
        for lt, fa in zip(LTS, fas):
            mt.create_feature(fa, getattr(nix.LinkType, lt))

        def forms(owner, fi):
            """every way of addressing feature fi: position, feature id, name and id of its data"""
            ft = owner.features[fi]
            return [("index", fi), ("feature-id", ft.id), ("data-name", fas[fi].name), ("data-id", fas[fi].id)]
        regs = [(c[1], c[2] - c[1]), (c[0], Fr(0)), (c[3], c[4] - c[3]), (c[1] + (c[2] - c[1]) / 4, Fr(0)), (c[2], None)]
        for p, e in regs:
            tag.position = [float(p)]
            tag.extent = None if e is None else [float(e)]
            for rn, rule in RULES:
                sel = [select(c, p, e, rn), [0, 1]]
                for fname, key in forms(tag, 0):
                    st, got = observe(lambda: tag.feature_data(key, rule))
                    judge(r, "C08|tag.feature|%s|tagged|%s|by-%s" % (kind, rn, fname), "tag feature (tagged, addressed by %s) region [%s,+%s] %s" % (fname, float(p), e, rn),
                          fdatas[0], sel, contained(c, p, e), st, got)
                for fi, nm in ((1, "untagged"), (2, "indexed")):
                    for fname, key in forms(tag, fi):
                        st, got = observe(lambda: tag.feature_data(key, rule))
                        judge(r, "C08|tag.feature|%s|%s|%s|by-%s" % (kind, nm, rn, fname), "tag feature (%s, by %s) must be the whole array" % (nm, fname),
                              fdatas[fi], [list(range(n)), [0, 1]], True, st, got)
            # the deprecated spellings are the same calls
            for nm_, new_, old_ in (("retrieve_data", lambda: tag.tagged_data(0), lambda: tag.retrieve_data(0)),
                                    ("retrieve_feature_data", lambda: tag.feature_data(0), lambda: tag.retrieve_feature_data(0))):
                if not hasattr(tag, nm_):
                    continue            # a deprecated spelling may be removed; if it exists it must be the same call
                a_, b_ = observe(new_), observe(old_)
                r.evals += 1
                if a_[0] != b_[0] or (a_[1] is not None and not np.array_equal(a_[1], b_[1])):
                    r.viol("C08|tag.%s|%s|differs-from-current-name" % (nm_, kind), "Tag.%s gives %r, the current method %r" % (nm_, b_, a_), {})
        mregs = [(c[1], c[2] - c[1]), (c[0], Fr(0)), (c[3], c[4] - c[3])]
        for i, (p, e) in enumerate(mregs):
            for rn, rule in RULES:
                for fname, key in forms(mt, 0):
                    st, got = observe(lambda: mt.feature_data(i, key, rule))
                    judge(r, "C08|mtag.feature|%s|tagged|%s|row%d|by-%s" % (kind, rn, i, fname), "multi-tag feature (tagged, by %s) row %d %s" % (fname, i, rn),
                          fdatas[0], [select(c, p, e, rn), [0, 1]], contained(c, p, e), st, got)
                for fname, key in forms(mt, 1):
                    st, got = observe(lambda: mt.feature_data(i, key, rule))
                    judge(r, "C08|mtag.feature|%s|untagged|%s|by-%s" % (kind, rn, fname), "multi-tag feature (untagged, by %s) must be the whole array" % fname,
                          fdatas[1], [list(range(n)), [0, 1]], True, st, got)
                for fname, key in forms(mt, 2):
                    st, got = observe(lambda: mt.feature_data(i, key, rule))
                    judge(r, "C08|mtag.feature|%s|indexed|%s|row%d|by-%s" % (kind, rn, i, fname), "multi-tag feature (indexed, by %s) row %d must be entry %d" % (fname, i, i),
                          fdatas[2], [[i], [0, 1]], True, st, got)
            for nm_, new_, old_ in (("retrieve_data", lambda: mt.tagged_data(i, 0), lambda: mt.retrieve_data(i, 0)),
                                    ("retrieve_feature_data", lambda: mt.feature_data(i, 0), lambda: mt.retrieve_feature_data(i, 0))):
                if not hasattr(mt, nm_):
                    continue
                a_, b_ = observe(new_), observe(old_)
                r.evals += 1
                if a_[0] != b_[0] or (a_[1] is not None and not np.array_equal(a_[1], b_[1])):
                    r.viol("C08|mtag.%s|%s|differs-from-current-name" % (nm_, kind), "MultiTag.%s gives %r, the current method %r" % (nm_, b_, a_), {})
    finally:
        s.close()


def run_nondyadic(case, r):
    """sampling interval / offset not exactly representable: positions are the ones the library itself reports
    for sample k (position_at); a point tag on sample k selects sample k, a region from k to j selects k..j"""
    iv, off = case["iv"], case["off"]
    n = 40
    s = S(r)
    try:
        data = np.arange(float(n)) + 1
        da = s.b.create_data_array("d", "t", data=data)
        dim = da.append_sampled_dimension(iv)
        if off is not None:
            dim.offset = off
        pos = [dim.position_at(i) for i in range(n)]
        tag = s.b.create_tag("tag", "t", [0.0])
        tag.references.append(da)
        pa = s.b.create_data_array("pos", "t", data=np.array(pos))
        mt = s.b.create_multi_tag("mt", "t", pa)
        mt.references.append(da)
        for k in range(n):
            tag.position = [pos[k]]
            tag.extent = None
            for rn, rule in RULES:
                st, got = observe(lambda: tag.tagged_data(0, rule))
                judge(r, "C08|tag|sampled-nondyadic|point|%s" % rn, "point tag on sample %d (interval %r offset %r)" % (k, iv, off),
                      data, [[k]], True, st, got)
                st, got = observe(lambda: mt.tagged_data(k, 0, rule))
                judge(r, "C08|mtag|sampled-nondyadic|point|%s" % rn, "multi-tag point on sample %d (interval %r offset %r)" % (k, iv, off),
                      data, [[k]], True, st, got)
            for j in range(k + 1, min(n, k + 12), 5):
                tag.extent = [pos[j] - pos[k]]
                # pos[k] + (pos[j] - pos[k]) may differ from pos[j] by an ulp: still 'on' sample j for the library
                for rn, rule in RULES:
                    st, got = observe(lambda: tag.tagged_data(0, rule))
                    sel = list(range(k, j + 1)) if rn == "incl" else list(range(k, j))
                    judge(r, "C08|tag|sampled-nondyadic|region|%s" % rn,
                          "region from sample %d to sample %d (interval %r offset %r)" % (k, j, iv, off), data, [sel], True, st, got)
    finally:
        s.close()


def run_closeticks(case, r):
    """irregular ticks of large magnitude that lie closer together than 1e-5 of their value (event times around
    1000 with a spacing of 1/256): every tick is a sample of its own"""
    sub = case["ticks"]
    c = [Fr(1000) + Fr(k, 256) for k in sub]
    n = len(c)
    s = S(r)
    try:
        data = np.arange(float(n)) + 1
        da = s.b.create_data_array("d", "t", data=data)
        da.append_range_dimension([float(x) for x in c])
        tag = s.b.create_tag("tag", "t", [0.0])
        tag.references.append(da)
        regs = [(c[i], None) for i in range(n)] + [(c[i], c[j] - c[i]) for i in range(n) for j in range(i + 1, n)]
        regs += [(c[i] + Fr(1, 1024), Fr(0)) for i in range(n - 1)]                    # between two ticks: nothing
        regs += [(c[i] + Fr(1, 1024), c[i + 1] - c[i]) for i in range(n - 1)]          # from between i,i+1 to beyond i+1
        for p, e in regs:
            tag.position = [float(p)]
            tag.extent = None if e is None else [float(e)]
            for rn, rule in RULES:
                sel = [select(c, p, e, rn)]
                st, got = observe(lambda: tag.tagged_data(0, rule))
                judge(r, "C08|tag|range-close-ticks|%s|%s" % ("point" if not e else "region", rn),
                      "ticks %r, region [%r, +%r] (%s)" % ([float(x) for x in c], float(p), None if e is None else float(e), rn),
                      data, sel, contained(c, p, e), st, got)
    finally:
        s.close()


def run_multiref(case, r):
    """one tag (with units) referencing several arrays whose dimensions carry different unit prefixes"""
    kind = case["kind"]
    n = 5
    spec = variants(kind, n)[0]
    c = coords(spec, n)
    s = S(r)
    try:
        tag = s.b.create_tag("tag", "t", [0.0])
        tag.units = ["ms"]
        arrays = []
        for dp in ("m", "", "u", "k"):
            da, data = mk_array(s, "d" + (dp or "none"), (n,), [spec], units=[dp + "s"])
            data = data + 100 * len(arrays)
            da[:] = data
            tag.references.append(da)
            fa, fdata = mk_array(s, "f" + (dp or "none"), (n,), [spec], units=[dp + "s"])
            tag.create_feature(fa, nix.LinkType.Tagged)
            arrays.append((dp, data, fdata))

        def mid(i):
            return c[i] + (c[i + 1] - c[i]) / 2
        regs = [(mid(0), mid(2) - mid(0)), (mid(1), mid(3) - mid(1)), (mid(2), None)]
        for order in (range(len(arrays)), reversed(range(len(arrays)))):
            for idx in order:
                dp, data, fdata = arrays[idx]
                scale = Fr(10) ** (PREF["m"] - PREF[dp])
                for p, e in regs:
                    tag.position = [float(p / scale)]
                    tag.extent = None if e is None else [float(e / scale)]
                    for rn, rule in RULES:
                        sel = [select(c, p, e, rn)]
                        for other in range(len(arrays)):
                            # touch another reference first (per-tag state must not leak between references)
                            observe(lambda: tag.tagged_data(other, rule))
                            st, got = observe(lambda: tag.tagged_data(idx, rule))
                            judge(r, "C08|tag-multiref|%s|ms->%ss|%s" % (kind, dp, rn),
                                  "tag (ms) referencing arrays with units ms/s/us/ks: reference %d region [%s,+%s]" % (idx, float(p), e),
                                  data, sel, contained(c, p, e), st, got)
                            st, got = observe(lambda: tag.feature_data(idx, rule))
                            judge(r, "C08|tag-multiref-feature|%s|ms->%ss|%s" % (kind, dp, rn),
                                  "tag (ms) tagged feature %d on an array with unit %ss" % (idx, dp),
                                  fdata, sel, contained(c, p, e), st, got)
    finally:
        s.close()


def run_case(case):
    r = R()
    {"mtag-int-units": run_mtag_int_units, "longticks": run_longticks, "closeticks": run_closeticks, "mtag-int": run_mtag_int, "units-mixed": run_units_mixed, "tag": run_tag, "units": run_units, "mtag": run_mtag, "feat": run_feat, "nondyadic": run_nondyadic,
     "multiref": run_multiref}[case["k"]](case, r)
    return r
