"""C07 - dimension descriptors map positions to sample indices by order, exactly.

E2: every descriptor parameterisation of the alphabet x every position class
x every index mode / interval mode, on a real file; oracle = order-theoretic
definition over exact rationals.
"""
import itertools
import math
from fractions import Fraction as Fr

import numpy as np

from mc.core import R
from mc import env
import nixio as nix
from nixio import IndexMode, SliceMode

LEVEL = "exploration"
RULE = ("complete product: (sampled: 5 intervals x 6 offsets | range: every ascending tick vector of "
        "length 0..4 over {-1,0,0.5,2} with repeats, stored and linked | set: 0..3 labels) x every "
        "position of the class alphabet (on / between / before / after samples, far samples) x 3 index "
        "modes, x every ordered position pair x 2 interval modes, plus position_at/tick_at/axis round "
        "trips; non-trivial = query whose position is not the first sample of a fresh dimension; "
        "distinct by construction")
ASSUMPTIONS = [
    "all parameters are dyadic rationals, so the reference arithmetic (Fractions) is exact",
    "positions closer than 1e-5 (relative) to a sample without being on it are generated only in the "
    "'far' class (index >= 2^17), where the library's isclose() tolerance exceeds half a sample",
    "sampling intervals <= 0 are invalid input (validator) and not enumerated",
]

MODES = [("leq", IndexMode.LessOrEqual), ("less", IndexMode.Less), ("geq", IndexMode.GreaterOrEqual)]
SMODES = [("incl", SliceMode.Inclusive), ("excl", SliceMode.Exclusive)]
INTERVALS = [Fr(1, 4), Fr(1, 2), Fr(1), Fr(2), Fr(3)]
OFFSETS = [None, Fr(0), Fr(-2), Fr(-3, 4), Fr(1, 2), Fr(3)]
INTERVALS_T = [Fr(1, 8), Fr(1, 4), Fr(1, 2), Fr(3, 4), Fr(1), Fr(3, 2), Fr(2), Fr(3), Fr(5), Fr(1024)]
OFFSETS_T = [None, Fr(0), Fr(-1024), Fr(-2), Fr(-3, 4), Fr(-1, 8), Fr(1, 8), Fr(1, 2), Fr(3), Fr(4096)]
TICK_ALPHA = [Fr(-1), Fr(0), Fr(1, 2), Fr(2)]
TICK_ALPHA_T = [Fr(-5, 2), Fr(-1), Fr(0), Fr(1, 2), Fr(2), Fr(11, 4)]
RANGE_POS_T = [Fr(-3), Fr(-5, 2), Fr(-2), Fr(-1), Fr(-1, 2), Fr(0), Fr(1, 4), Fr(1, 2), Fr(5, 4), Fr(2), Fr(5, 2),
               Fr(11, 4), Fr(3)]
RANGE_POS = [Fr(-2), Fr(-1), Fr(-1, 2), Fr(0), Fr(1, 4), Fr(1, 2), Fr(5, 4), Fr(2), Fr(3)]
SET_POS = [Fr(-1), Fr(-1, 2), Fr(0), Fr(1, 2), Fr(1), Fr(3, 2), Fr(2), Fr(5, 2), Fr(3), Fr(4)]
FAR = 1 << 17
# non-dyadic parameters: only the round trip through the library's own position_at is asserted there
NONDYADIC_IV = [0.1, 0.3, 0.7, 0.001, 1.0 / 3.0, 2.5e-5]
NONDYADIC_OFF = [None, 0.1, -0.7, 12.3]


def BOUNDS(tier):
    th = tier == "thorough"
    return {"sampled_configs": len(INTERVALS_T) * len(OFFSETS_T) if th else len(INTERVALS) * len(OFFSETS),
            "sample_k": [-4, 12] if th else [-2, 4],
            "tick_vectors": "70 over 4 values, length 0..4" + ("; + every vector of length 1..5 over 6 values (stored, linked, alias)" if th else ""),
            "tick_sources": ["stored", "linked 1-D array", "column of a linked 2-D array", "data frame column",
                             "alias (array is its own ticks)", "ticks passed as argument"],
            "set_label_counts": [0, 1, 2, 3, 4, 5] if th else [0, 1, 2, 3],
            "nondyadic_roundtrip_n": 2000 if th else 120,
            "far_index": FAR}


def cases(tier):
    krange = (-4, 12) if tier == "thorough" else (-2, 4)
    for iv in (INTERVALS_T if tier == "thorough" else INTERVALS):
        for off in (OFFSETS_T if tier == "thorough" else OFFSETS):
            yield {"k": "sampled", "iv": str(iv), "off": None if off is None else str(off), "kr": krange}
    # offsets that are huge compared with the sampling interval (all dyadic: the reference stays exact)
    for iv, off in ((Fr(1, 8), Fr(4096)), (Fr(1, 8), Fr(-4096)), (Fr(1, 1024), Fr(1000)), (Fr(1, 1024), Fr(-250))):
        yield {"k": "sampled", "iv": str(iv), "off": str(off), "kr": krange}
    for iv in NONDYADIC_IV:
        for off in NONDYADIC_OFF:
            yield {"k": "roundtrip", "iv": iv, "off": off, "n": 2000 if tier == "thorough" else 120}
    for n in range(0, 5):
        for ticks in itertools.combinations_with_replacement(TICK_ALPHA, n):
            for src in ("stored", "linked", "linked2d", "frame", "alias", "ticks-arg"):
                if n == 0 and src != "stored":
                    continue
                yield {"k": "range", "ticks": [str(t) for t in ticks], "src": src}
            # integer-typed linked tick arrays (the ticks are whatever the array holds, in the array's element type)
            if n and all(t.denominator == 1 for t in ticks):
                for dt in ["int16", "float32"] + (["uint8", "uint64"] if all(t >= 0 for t in ticks) else []):
                    yield {"k": "range", "ticks": [str(t) for t in ticks], "src": "linked", "dtype": dt}
    if tier == "thorough":
        # wider tick alphabet and longer vectors (stored and linked)
        for n in range(1, 6):
            for ticks in itertools.combinations_with_replacement(TICK_ALPHA_T, n):
                if set(ticks) <= set(TICK_ALPHA) and n <= 4:
                    continue
                for src in ("stored", "linked", "alias"):
                    yield {"k": "range", "ticks": [str(t) for t in ticks], "src": src, "wide": True}
    # sampling intervals far below 1e-8 (dyadic, so the reference stays exact)
    for iv, off in ((Fr(1, 2 ** 30), None), (Fr(1, 2 ** 30), Fr(3)), (Fr(1, 2 ** 40), Fr(-1, 4))):
        yield {"k": "sampled", "iv": str(iv), "off": None if off is None else str(off), "kr": krange}
    # long tick vectors (beyond 255 / 1024 entries), every value repeated twice resp. strictly ascending
    for n in (300, 1025) + ((3000, 5000) if tier == "thorough" else ()):
        for rep in (1, 2):
            for src in ("stored", "linked"):
                yield {"k": "range", "ticks": ["%d/%d" % (i // rep, 2) for i in range(n)], "src": src, "long": True}
    # ticks of large magnitude that lie closer together than 1e-5 of their value (dyadic: 1000 + k/256)
    for sub in ([0, 1, 2, 3], [0, 2, 3], [1, 1, 3], [0, 3]):
        for src in ("stored", "linked", "alias"):
            yield {"k": "range", "ticks": [str(Fr(1000) + Fr(k, 256)) for k in sub], "src": src, "close": True}
    for n in range(0, 6 if tier == "thorough" else 4):
        yield {"k": "set", "n": n}


# ---------------------------------------------------------------- reference

def ref_unbounded(q, mode):
    """samples at integer coordinates 0,1,2,... ; q = scaled position (Fraction)"""
    if mode == "leq":
        return math.floor(q) if q >= 0 else None
    if mode == "less":
        return math.ceil(q) - 1 if q > 0 else None
    return max(0, math.ceil(q))


def ref_finite(coords, p, mode):
    if mode == "leq":
        s = [i for i, c in enumerate(coords) if c <= p]
        return s[-1] if s else None
    if mode == "less":
        s = [i for i, c in enumerate(coords) if c < p]
        return s[-1] if s else None
    s = [i for i, c in enumerate(coords) if c >= p]
    return s[0] if s else None


def ref_range(index_fn, a, b, smode):
    """(min S, max S) or None for S = {i : a <= c_i <= b} / {a <= c_i < b}"""
    lo = index_fn(a, "geq")
    hi = index_fn(b, "leq" if smode == "incl" else "less")
    if lo is None or hi is None or lo > hi:
        return None
    return (lo, hi)


# ---------------------------------------------------------------- helpers

def pcls_sampled(q, far):
    if far:
        return "far-on" if q.denominator == 1 else "far-between"
    if q < 0:
        return "before"
    if q == 0:
        return "first"
    return "on" if q.denominator == 1 else "between"


def pcls_finite(coords, p):
    if not coords:
        return "empty"
    if p < coords[0]:
        return "before"
    if p > coords[-1]:
        return "after"
    if p == coords[0]:
        return "first"
    return "on" if p in coords else "between"


def check_index(r, kind, dim, pfloat, mname, mode, exp, cls, ctx, **kw):
    r.evals += 1
    sm = "any" if cls == "far" else mname   # far class: one root cause, coarse signature
    try:
        got = dim.index_of(pfloat, mode, **kw)
        st = "ok"
    except IndexError:
        got, st = None, "IndexError"
    except Exception as exc:  # noqa
        got, st = None, type(exc).__name__
    r.outcomes.add("%s.index_of:%s:%s" % (kind, mname, "idx" if st == "ok" else st))
    if st == "ok":
        try:
            gi = int(got)
        except Exception:
            gi = got
        if exp is None:
            r.viol("C07|%s.index_of|%s|%s|no-error-but-no-sample" % (kind, sm, cls),
                   "%s index_of(%r, %s) = %r although no sample satisfies the mode (%s)" % (
                       kind, pfloat, mname, got, ctx), {"position": pfloat, "mode": mname})
        elif gi != exp:
            r.viol("C07|%s.index_of|%s|%s|wrong-index" % (kind, sm, cls),
                   "%s index_of(%r, %s) = %r, expected %r (%s)" % (kind, pfloat, mname, got, exp, ctx),
                   {"position": pfloat, "mode": mname, "expected": exp, "got": repr(got)})
    elif st == "IndexError":
        if exp is not None:
            r.viol("C07|%s.index_of|%s|%s|IndexError-but-sample-exists" % (kind, sm, cls),
                   "%s index_of(%r, %s) raises IndexError, expected %r (%s)" % (kind, pfloat, mname, exp, ctx),
                   {"position": pfloat, "mode": mname, "expected": exp})
    else:
        r.viol("C07|%s.index_of|%s|%s|raises-%s" % (kind, mname, cls, st),
               "%s index_of(%r, %s) raises %s (%s)" % (kind, pfloat, mname, st, ctx),
               {"position": pfloat, "mode": mname})


def check_range(r, kind, dim, a, b, sname, smode, exp, cls, ctx):
    r.evals += 1
    sm = "any" if cls == "far" else sname
    a = a if isinstance(a, float) else float(a)
    b = b if isinstance(b, float) else float(b)
    try:
        got = dim.range_indices(float(a), float(b), smode)
        st = "ok"
    except IndexError:
        got, st = None, "IndexError"
    except Exception as exc:  # noqa
        got, st = None, type(exc).__name__
    r.outcomes.add("%s.range_indices:%s:%s" % (kind, sname, "none" if got is None else "pair"))
    if st not in ("ok", "IndexError"):
        r.viol("C07|%s.range_indices|%s|%s|raises-%s" % (kind, sname, cls, st),
               "%s range_indices(%r, %r, %s) raises %s (%s)" % (kind, float(a), float(b), sname, st, ctx),
               {"a": float(a), "b": float(b), "mode": sname})
        return
    if got is not None:
        try:
            got = (int(got[0]), int(got[1]))
        except Exception:
            pass
    if exp is None:
        if got is not None:
            r.viol("C07|%s.range_indices|%s|%s|non-empty-but-no-sample" % (kind, sm, cls),
                   "%s range_indices(%r, %r, %s) = %r but no sample lies in the interval (%s)" % (
                       kind, float(a), float(b), sname, got, ctx), {"a": float(a), "b": float(b), "mode": sname})
    else:
        if got is None:
            r.viol("C07|%s.range_indices|%s|%s|empty-but-samples-exist" % (kind, sm, cls),
                   "%s range_indices(%r, %r, %s) reports empty (%s), expected %r (%s)" % (
                       kind, float(a), float(b), sname, st, exp, ctx),
                   {"a": float(a), "b": float(b), "mode": sname, "expected": list(exp)})
        elif tuple(got) != tuple(exp):
            r.viol("C07|%s.range_indices|%s|%s|wrong-range" % (kind, sm, cls),
                   "%s range_indices(%r, %r, %s) = %r, expected %r (%s)" % (
                       kind, float(a), float(b), sname, got, exp, ctx),
                   {"a": float(a), "b": float(b), "mode": sname, "expected": list(exp)})


class Session:
    """one file per case; a DECOY block created first holds arrays with the names the scenarios use ("d", "ticks")
    whose first dimension has the same kind but other parameters; it is evaluated before and after the scenario
    (anything remembered per name instead of per entity would answer one of the two with the other's geometry)"""

    def __init__(self, r=None, kind=None):
        env.install_seams()
        env.reset_execution()
        self.r, self.kind = r, kind
        self.path = env.fresh_path("c07_")
        self.f = nix.File.open(self.path, nix.FileMode.Overwrite)
        self.decoy = None
        if kind is not None:
            b0 = self.f.create_block("a-decoy", "t")
            dd = b0.create_data_array("d", "t", data=np.arange(8.0))
            if kind == "sampled":
                dim = dd.append_sampled_dimension(13.0)
                dim.offset = -5.0
            elif kind == "range":
                tk = b0.create_data_array("ticks", "t", data=np.array([100.0, 200.0, 300.0]))
                dim = dd.append_range_dimension()
                dim.link_data_array(tk, [-1])
            else:
                dim = dd.append_set_dimension(["z%d" % i for i in range(7)])
            self.decoy = dim
            self.decoy_check("before")
        self.b = self.f.create_block("b", "t")

    def decoy_check(self, when):
        dim, kind = self.decoy, self.kind
        if kind == "sampled":
            got = (int(dim.index_of(8.0)), int(dim.index_of(9.0, IndexMode.GreaterOrEqual)), dim.range_indices(-5.0, 21.0, SliceMode.Inclusive))
            exp = (1, 2, (0, 2))
        elif kind == "range":
            got = (int(dim.index_of(250.0)), int(dim.index_of(250.0, IndexMode.GreaterOrEqual)), dim.range_indices(100.0, 300.0, SliceMode.Exclusive))
            exp = (1, 2, (0, 1))
        else:
            got = (int(dim.index_of(5.0)), int(dim.index_of(4.5, IndexMode.GreaterOrEqual)), dim.range_indices(1.0, 6.0, SliceMode.Inclusive))
            exp = (5, 5, (1, 6))
        got = (got[0], got[1], None if got[2] is None else (int(got[2][0]), int(got[2][1])))
        if got != exp and self.r is not None:
            self.r.viol("C07|decoy-block-same-names|%s|%s" % (kind, when),
                        "a %s dimension of the equally named array in ANOTHER block answers %r %s the scenario, expected %r" % (kind, got, when, exp), {})

    def close(self):
        try:
            if self.decoy is not None and self.r is not None and not self.r.violations:
                self.decoy_check("after")
        except Exception as e:  # noqa
            if self.r is not None:
                self.r.viol("C07|decoy-block-same-names|raises-%s" % type(e).__name__, "evaluating the decoy raises %s" % e, {})
        env.safe_close(self.f)
        env.rm(self.path)


# ---------------------------------------------------------------- scenarios

def run_sampled(case, r):
    iv = Fr(case["iv"])
    off = None if case["off"] is None else Fr(case["off"])
    o = off if off is not None else Fr(0)
    k0, k1 = case["kr"]
    s = Session(r, "sampled")
    try:
        da = s.b.create_data_array("d", "t", data=np.arange(8.0))
        dim = da.append_sampled_dimension(float(iv))
        if off is not None:
            dim.offset = float(off)
        ctx = "interval=%s offset=%s" % (iv, off)
        offc = "off-" + ("unset" if off is None else ("zero" if off == 0 else ("neg" if off < 0 else "pos")))
        pts = []
        for k in range(k0, k1 + 1):
            for frac in (Fr(0), Fr(1, 4), Fr(1, 2)):
                pts.append((Fr(k) + frac, False))
        for q in (Fr(FAR), Fr(FAR) + Fr(1, 4), Fr(FAR) + Fr(3, 4)):
            pts.append((q, True))

        def idx(q, mode):
            return ref_unbounded(q, mode)

        for q, far in pts:
            p = o + q * iv
            cls = "far" if far else pcls_sampled(q, far) + "|" + offc
            for mname, mode in MODES:
                if not (q == 0):
                    r.nontrivial += 1
                check_index(r, "sampled", dim, float(p), mname, mode, idx(q, mname), cls, ctx)
        near = [(q, far) for q, far in pts]
        for (qa, fa), (qb, fb) in itertools.product(near, repeat=2):
            if fa != fb:
                continue
            a, b = o + qa * iv, o + qb * iv
            for sname, smode in SMODES:
                exp = ref_range(idx, qa, qb, sname)
                cls = "far" if fa else "%s..%s|%s" % (pcls_sampled(qa, fa), pcls_sampled(qb, fb), offc)
                r.nontrivial += 1
                check_range(r, "sampled", dim, a, b, sname, smode, exp, cls, ctx)
        # position_at / axis agree with the conversions
        for i in range(0, 8):
            r.evals += 1
            r.nontrivial += 1
            pos = dim.position_at(i)
            if Fr(float(pos)) != o + i * iv:
                r.viol("C07|sampled.position_at|%s|wrong-position" % offc,
                       "position_at(%d) = %r, expected %s (%s)" % (i, pos, o + i * iv, ctx), {"index": i})
                continue
            for mname, mode in MODES:
                exp = i if mname != "less" else (i - 1 if i > 0 else None)
                check_index(r, "sampled", dim, pos, mname, mode, exp, "roundtrip|" + offc, ctx)
        # axis generated from a start position: the positions of consecutive samples from there on;
        # a start position before the offset is refused
        for k in (0, 1, 3):
            for count in (0, 1, 4):
                r.evals += 1
                r.nontrivial += 1
                sp = dim.position_at(k)
                try:
                    ax = dim.axis(count, start_position=sp)
                    st = "ok"
                except Exception as exc:  # noqa
                    ax, st = None, type(exc).__name__
                exp = [o + (i + k) * iv for i in range(count)]
                if st != "ok" or [Fr(float(x)) for x in ax] != exp:
                    r.viol("C07|sampled.axis|%s|start-position|wrong-axis" % offc,
                           "axis(%d, start_position=%r) = %r (%s), expected %r (%s)" % (
                               count, sp, ax, st, [float(e) for e in exp], ctx), {"count": count, "k": k})
        r.evals += 1
        try:
            ax = dim.axis(2, start_position=float(o - iv))
            r.viol("C07|sampled.axis|%s|start-position-before-offset|accepted" % offc,
                   "axis(2, start_position=%r) before the offset returned %r (%s)" % (float(o - iv), ax, ctx), {})
        except ValueError:
            r.outcomes.add("sampled.axis:start-before-offset:ValueError")
        for count in range(0, 5):
            for start in (None, 0, 1, 3):
                r.evals += 1
                r.nontrivial += 1
                ax = dim.axis(count, start) if start is not None else dim.axis(count)
                exp = [o + (i + (start or 0)) * iv for i in range(count)]
                if [Fr(float(x)) for x in ax] != exp:
                    r.viol("C07|sampled.axis|%s|wrong-axis" % offc,
                           "axis(%d, %r) = %r, expected %r (%s)" % (count, start, ax, [float(e) for e in exp], ctx),
                           {"count": count, "start": start})
    finally:
        s.close()


def run_range(case, r):
    ticks = [Fr(t) for t in case["ticks"]]
    s = Session(r, "range")
    try:
        n = len(ticks)
        da = s.b.create_data_array("d", "t", data=np.arange(float(max(n, 1))))
        fticks = [float(t) for t in ticks]
        src = case["src"]
        kw = {}
        if src in ("stored", "ticks-arg"):
            if n:
                dim = da.append_range_dimension(fticks)
            else:
                dim = da.append_range_dimension()
            if src == "ticks-arg":
                kw = {"ticks": tuple(fticks)}        # documented optional argument: the ticks of this dimension
        elif src == "linked":
            tda = s.b.create_data_array("ticks", "t", data=np.array(fticks, dtype=case.get("dtype", "float64")))
            dim = da.append_range_dimension()
            dim.link_data_array(tda, [-1])
        elif src == "linked2d":
            # the ticks are column 1 of a 2-D array whose other columns are decoys
            m2 = np.stack([np.arange(n) * 100.0 - 7, np.array(fticks), -np.array(fticks) - 50], axis=1)
            tda = s.b.create_data_array("ticks", "t", data=m2)
            dim = da.append_range_dimension()
            dim.link_data_array(tda, [-1, 1])
        elif src == "frame":
            df = s.b.create_data_frame("tf", "t", col_names=["dec", "tk", "s"], col_dtypes=[np.float64, np.float64, str],
                                       data=[(float(i) * 100 - 7, fticks[i], "x") for i in range(n)])
            dim = da.append_range_dimension()
            dim.link_data_frame(df, 1)
        elif src == "alias":
            ada = s.b.create_data_array("selfticks", "t", data=np.array(fticks))
            dim = ada.append_range_dimension_using_self()
            da = ada
        # fresh handle from the container as well
        dim2 = da.dimensions[0]
        got_ticks = [Fr(float(t)) for t in dim2.ticks]
        r.evals += 1
        if got_ticks != ticks:
            r.viol("C07|range.ticks|%s|wrong-ticks" % case["src"],
                   "ticks read back %r, expected %r" % (dim2.ticks, fticks), {})
            return
        ctx = "ticks=%r (%s%s)" % (fticks, case["src"], " " + case["dtype"] if case.get("dtype") else "")
        strict = all(a < b for a, b in zip(ticks, ticks[1:]))
        rep = "strict" if strict else "repeated"

        def idx(p, mode):
            return ref_finite(ticks, p, mode)

        POS = RANGE_POS_T if case.get("wide") else RANGE_POS
        if case.get("long"):
            n_ = len(ticks)
            marks = sorted({0, 1, 2, n_ // 3, n_ // 2, 254, 255, 256, 1023, 1024, 1025, n_ - 3, n_ - 2, n_ - 1} & set(range(n_)))
            POS = sorted({ticks[i] for i in marks} | {ticks[i] + Fr(1, 8) for i in marks} | {ticks[0] - 1, ticks[-1] + 1})
        if case.get("close"):
            POS = [Fr(999)] + [Fr(1000) + Fr(k, 512) for k in range(-1, 8)] + [Fr(1001)]
        for p in POS:
            cls = pcls_finite(ticks, p) + "|" + rep
            for mname, mode in MODES:
                r.nontrivial += 1
                check_index(r, "range", dim, float(p), mname, mode, idx(p, mname), cls, ctx, **kw)
        PAIRS = itertools.product(POS, repeat=2) if not case.get("long") else [(a, b) for a in POS[::3] for b in POS[1::3]]
        for a, b in PAIRS:
            for sname, smode in SMODES:
                exp = ref_range(idx, a, b, sname) if a <= b else None
                cls = "%s..%s|%s%s" % (pcls_finite(ticks, a), pcls_finite(ticks, b), rep, "|reversed" if a > b else "")
                r.nontrivial += 1
                check_range(r, "range", dim, a, b, sname, smode, exp, cls, ctx)
        if strict:
            for i in (range(n) if not case.get("long") else marks):
                r.evals += 1
                t = dim.tick_at(i)
                if Fr(float(t)) != ticks[i]:
                    r.viol("C07|range.tick_at|wrong-tick", "tick_at(%d) = %r, expected %r (%s)" % (
                        i, t, fticks[i], ctx), {"index": i})
                    continue
                for mname, mode in MODES:
                    exp = i if mname != "less" else (i - 1 if i > 0 else None)
                    check_index(r, "range", dim, float(t), mname, mode, exp, "roundtrip", ctx, **kw)
            for start in (range(0, n + 1) if not case.get("long") else [x for x in (0, 1, 255, 1023, n - 2) if 0 <= x <= n]):
                for count in (range(0, n - start + 1) if not case.get("long") else sorted({c_ for c_ in (0, 1, 2, 300, n - start) if 0 <= c_ <= n - start})):
                    r.evals += 1
                    ax = dim.axis(count, start)
                    if [Fr(float(x)) for x in ax] != ticks[start:start + count]:
                        r.viol("C07|range.axis|wrong-axis", "axis(%d, %d) = %r (%s)" % (count, start, ax, ctx),
                               {"count": count, "start": start})
    finally:
        s.close()


def run_set(case, r):
    n = case["n"]
    s = Session(r, "set")
    try:
        da = s.b.create_data_array("d", "t", data=np.arange(float(max(n, 1))))
        labels = ["l%d" % i for i in range(n)]
        dim = da.append_set_dimension(labels if n else None)
        ctx = "labels=%d" % n
        coords = [Fr(i) for i in range(n)]

        def idx(p, mode):
            if n == 0:
                return ref_unbounded(p, mode)
            return ref_finite(coords, p, mode)

        for p in SET_POS:
            cls = (pcls_finite(coords, p) if n else pcls_sampled(p, False)) + "|n%d" % n
            for mname, mode in MODES:
                r.nontrivial += 1
                check_index(r, "set", dim, float(p), mname, mode, idx(p, mname), cls, ctx)
        for a, b in itertools.product(SET_POS, repeat=2):
            for sname, smode in SMODES:
                exp = ref_range(idx, a, b, sname) if a <= b else None
                cls = "%s..%s|n%d%s" % (pcls_finite(coords, a) if n else pcls_sampled(a, False),
                                        pcls_finite(coords, b) if n else pcls_sampled(b, False), n,
                                        "|reversed" if a > b else "")
                r.nontrivial += 1
                check_range(r, "set", dim, a, b, sname, smode, exp, cls, ctx)
    finally:
        s.close()


def run_roundtrip(case, r):
    """converting the position of sample i back yields i - for intervals/offsets that are not exactly
    representable (the position is the one the library itself reports for sample i)"""
    iv, off, n = case["iv"], case["off"], case["n"]
    s = Session(r, "sampled")
    try:
        da = s.b.create_data_array("d", "t", data=np.arange(8.0))
        dim = da.append_sampled_dimension(iv)
        if off is not None:
            dim.offset = off
        ctx = "interval=%r offset=%r" % (iv, off)
        pos = [dim.position_at(i) for i in range(n)]
        for i in range(n):
            r.nontrivial += 1
            for mname, mode in MODES:
                exp = i if mname != "less" else (i - 1 if i > 0 else None)
                check_index(r, "sampled", dim, pos[i], mname, mode, exp, "roundtrip-nondyadic", ctx)
        for i, j in [(a, b) for a in range(0, n, 7) for b in range(a, min(n, a + 40), 9)]:
            r.nontrivial += 1
            check_range(r, "sampled", dim, pos[i], pos[j], "incl", SliceMode.Inclusive, (i, j), "roundtrip-nondyadic", ctx)
            check_range(r, "sampled", dim, pos[i], pos[j], "excl", SliceMode.Exclusive, (i, j - 1) if j > i else None,
                        "roundtrip-nondyadic", ctx)
        ax = dim.axis(n)
        r.evals += 1
        if [float(x) for x in ax] != [float(p_) for p_ in pos] and not np.allclose(ax, pos, rtol=1e-12, atol=0):
            r.viol("C07|sampled.axis|roundtrip-nondyadic|differs-from-position_at",
                   "axis(%d) differs from position_at (%s)" % (n, ctx), {})
    finally:
        s.close()


def run_case(case):
    r = R()
    {"sampled": run_sampled, "range": run_range, "set": run_set, "roundtrip": run_roundtrip}[case["k"]](case, r)
    return r
