"""C11 - open modes and format-version gating protect existing files.

E2 + E3: (a) the full lattice version (x,y,z) x mode x file id x format tag
on files with real content (header rewritten with raw h5py); (b) mode
semantics (Overwrite / ReadWrite / ReadOnly, missing path); (c) every
mutating operation of the alphabet of mc/ops.py, and every property setter /
deleter found by introspection, applied to read-only handles of the rich and
mini files - with a writable twin as differential oracle.
"""
import hashlib
import inspect
import os
import shutil

import h5py
import numpy as np

from mc import env
from mc import explorer, seeds, walker, ops as O
from mc.core import R
import nixio as nix
from nixio.exceptions import InvalidFile

LEVEL = "exploration"
RULE = ("(a) x in 0..2, y in 0..3, z in 0..3, mode in {ReadOnly, ReadWrite, Overwrite}, id in {valid, empty, missing, "
        "malformed}, format in {nix, other, missing}: 1728 opens of a file with content, decision table from the statement; "
        "(b) mode semantics on the seeds; (c) every mutating operation of the alphabet (about 1000 on the rich seed) and "
        "every property setter/deleter of every entity class (introspection) on read-only handles, writable twin as "
        "differential oracle, sha256 of the file before/after; non-trivial = open of a file whose header differs from a "
        "freshly created one, or a mutator that changes the writable twin; distinct by construction")
ASSUMPTIONS = [
    "the library's format version is (1,2,1) (asserted on freshly created files)",
    "a mutator that has no effect on a writable twin is allowed to succeed silently on a read-only handle",
]
CHUNK = 4
LIBVER = (1, 2, 1)
VALID_ID = "12345678-1234-4234-8234-123456789abc"


def sha(path):
    with open(path, "rb") as fh:
        return hashlib.sha256(fh.read()).hexdigest()


def BOUNDS(tier):
    return {"versions": "3 x 4 x 4", "modes": 3, "id_variants": 4, "format_variants": 3, "ro_seeds": ["rich", "mini"] + (["light", "block"] if tier == "thorough" else [])}


def cases(tier):
    for x in range(3):
        for y in range(4):
            yield {"k": "lattice", "x": x, "y": y}
    # version components with two and three digits (a version is a triple of numbers, not a string of digits)
    far = [(1, 1, 11), (1, 1, 10), (0, 12, 1), (1, 2, 10), (1, 2, 11), (1, 12, 1), (11, 2, 1), (10, 2, 1), (1, 10, 0), (1, 2, 101), (12, 1, 0), (1, 21, 0)]
    for i in range(0, len(far), 3):
        yield {"k": "lattice", "vers": [list(v) for v in far[i:i + 3]]}
    yield {"k": "modes"}
    for cfg in ("alone", "ro-opened-first", "rw-opened-first", "rw-opened-later"):
        yield {"k": "ro-shared", "cfg": cfg}
    yield {"k": "ro-reads"}
    for seed in ["rich", "mini"] + (["light", "block"] if tier == "thorough" else []):
        ops = [op for op in O.enabled(explorer.seed_model(seed), {"delete_modes": True}) if op[0] != "reopen"]
        n = 60
        for i in range(0, len(ops), n):
            yield {"k": "ro-ops", "seed": seed, "ops": ops[i:i + n]}
        yield {"k": "ro-setters", "seed": seed}


def make_base(path):
    env.install_seams()
    env.reset_execution()
    f = nix.File.open(path, nix.FileMode.Overwrite)
    seeds.build_mini(f)
    f.close()


def tamper(path, ver, idv, fmt):
    with h5py.File(path, "a") as h:
        h.attrs["version"] = np.array(ver, dtype=np.int32)
        if idv == "missing":
            if "id" in h.attrs:
                del h.attrs["id"]
        elif idv == "empty":
            h.attrs["id"] = ""
        elif idv == "malformed":
            h.attrs["id"] = "not-a-uuid"
        elif idv == "valid-plus-suffix":
            h.attrs["id"] = VALID_ID + "-copy"
        elif idv == "two-ids-glued":
            h.attrs["id"] = VALID_ID + VALID_ID
        else:
            h.attrs["id"] = VALID_ID
        if fmt == "missing":
            if "format" in h.attrs:
                del h.attrs["format"]
        elif fmt == "other":
            h.attrs["format"] = "odml"
        else:
            h.attrs["format"] = "nix"


def expected(ver, mode, idv, fmt):
    if mode == "w":
        return True
    if fmt != "nix":
        return False
    idok = idv == "valid"
    if mode == "a":
        return tuple(ver) == LIBVER and idok
    readable = ver[0] == LIBVER[0] and ver[1] <= LIBVER[1]
    if tuple(ver) >= (1, 2, 0) and not idok:
        return False
    return readable


def run_lattice(case, r):
    base = env.fresh_path("c11base_")
    make_base(base)
    work = env.fresh_path("c11w_")
    if "vers" in case:
        vers = [tuple(v) for v in case["vers"]]
        idvs = ("valid", "empty", "missing", "malformed", "valid-plus-suffix", "two-ids-glued")
        fmts = ("nix",)
    else:
        vers = [(case["x"], case["y"], z) for z in range(4)]
        idvs = ("valid", "empty", "missing", "malformed", "valid-plus-suffix", "two-ids-glued")
        fmts = ("nix", "other", "missing")
    try:
        for ver in vers:
            x, y, z = ver
            for idv in idvs:
                for fmt in fmts:
                    for mode in ("r", "a", "w"):
                        env.rm(work)
                        work = env.fresh_path("c11w_")      # fresh inode: a refused open may leak its HDF5 handle
                        shutil.copyfile(base, work)
                        tamper(work, ver, idv, fmt)
                        h0 = sha(work)
                        r.evals += 1
                        if (ver, idv, fmt) != (LIBVER, "valid", "nix"):
                            r.nontrivial += 1
                        exp = expected(ver, mode, idv, fmt)
                        try:
                            f = nix.File.open(work, mode)
                            exc, emsg = None, ""
                        except Exception as e:  # noqa
                            f, exc, emsg = None, type(e).__name__, str(e)[:100]
                            del e
                        vcls = "lib" if ver == LIBVER else ("older-patch" if ver[:2] == LIBVER[:2] and z < LIBVER[2] else
                                                             "newer-patch" if ver[:2] == LIBVER[:2] else
                                                             "older-minor" if x == 1 and y < 2 else "newer-minor" if x == 1 else "other-major")
                        cls = "%s|id-%s|format-%s|mode-%s" % (vcls, idv, fmt, mode)
                        r.outcomes.add("%s:%s" % (mode, "opened" if exc is None else exc))
                        if exp and exc is not None:
                            r.viol("C11|open|%s|refused-%s" % (cls, exc),
                                   "version %r id %s format %s mode %s must open, raised %s: %s" % (ver, idv, fmt, mode, exc, emsg), {})
                        elif not exp and exc is None:
                            r.viol("C11|open|%s|accepted" % cls, "version %r id %s format %s mode %s must be refused but opened" % (ver, idv, fmt, mode), {})
                        if f is not None:
                            try:
                                if mode == "w":
                                    if len(f.blocks) or len(f.sections) or tuple(f.version) != LIBVER or f.format != "nix" or not nix.util.is_uuid(f.id):
                                        r.viol("C11|overwrite|%s|not-a-fresh-file" % vcls, "Overwrite left content or an old header: version %r format %r id %r blocks %d" % (
                                            f.version, f.format, f.id, len(f.blocks)), {})
                                else:
                                    names = [b.name for b in f.blocks]
                                    if names != ["blk"]:
                                        r.viol("C11|open|%s|content-not-kept" % cls, "blocks after open: %r" % (names,), {})
                            finally:
                                env.safe_close(f)
                            if mode == "r" and sha(work) != h0:
                                r.viol("C11|read-only|%s|bytes-changed-by-open-close" % cls, "a read-only open+close changed the file", {})
                        else:
                            import gc
                            gc.collect()
                            if sha(work) != h0:
                                r.viol("C11|open|%s|refused-open-changed-the-file" % cls, "a refused open changed the bytes of the file", {})
    finally:
        env.rm(base)
        env.rm(work)


def run_modes(case, r):
    for seed in ("mini", "rich"):
        path = env.fresh_path("c11m_")
        s = O.Session(path=path, build=explorer.SEEDS[seed])
        w0 = walker.walk(s.f)
        r.evals += 1
        if tuple(s.f.version) != LIBVER:
            r.viol("C11|create|version-of-new-file", "a new file has version %r" % (s.f.version,), {})
        s.f.close()
        h0 = sha(path)
        for mode, label in ((nix.FileMode.ReadWrite, "rw"), (nix.FileMode.ReadOnly, "ro")):
            f = nix.File.open(path, mode)
            w1 = walker.walk(f)
            f.close()
            r.evals += 1
            r.nontrivial += 1
            if w1 != w0:
                r.viol("C11|mode-%s|content-not-kept" % label, "walk after %s open differs: %s" % (label, "; ".join(walker.diff(w0, w1, limit=3))), {})
            if label == "ro" and sha(path) != sha(path):
                pass
        f = nix.File.open(path)          # default mode
        r.evals += 1
        if walker.walk(f) != w0 or f.mode != nix.FileMode.ReadWrite:
            r.viol("C11|mode-default|content-not-kept", "default mode is not a content-preserving read-write open", {})
        f.create_block("can-write", "t")
        f.close()
        with h5py.File(path, "r") as h_:
            old_id = h_.attrs.get("id")
            old_id = old_id.decode() if isinstance(old_id, bytes) else old_id
        f = nix.File.open(path, nix.FileMode.Overwrite)
        r.evals += 1
        if len(f.blocks) or len(f.sections):
            r.viol("C11|mode-overwrite|content-kept", "Overwrite kept %d blocks" % len(f.blocks), {})
        # fresh header: NIX format tag, the library's version, a new well-formed file id
        import uuid as _uuid
        try:
            wellformed = str(_uuid.UUID(f.id)) == f.id.lower()
        except Exception:
            wellformed = False
        if f.format != "nix" or tuple(f.version) != LIBVER or not wellformed or f.id == old_id:
            r.viol("C11|mode-overwrite|header-not-fresh", "after Overwrite: format %r version %r id %r (id before: %r)" % (
                f.format, tuple(f.version), f.id, old_id), {})
        f.close()
        env.rm(path)
    missing = env.fresh_path("c11missing_")
    for mode, label in ((nix.FileMode.ReadOnly, "ro"), (nix.FileMode.ReadWrite, "rw"), (nix.FileMode.Overwrite, "w")):
        env.rm(missing)
        r.evals += 1
        r.nontrivial += 1
        try:
            f = nix.File.open(missing, mode)
            exc = None
        except Exception as e:  # noqa
            f, exc = None, e
        if label == "ro":
            if exc is None or os.path.exists(missing):
                r.viol("C11|missing-path|ro|%s" % ("opened" if exc is None else "file-created"), "read-only open of a missing path: %r, exists=%r" % (exc, os.path.exists(missing)), {})
        else:
            if exc is not None or not os.path.exists(missing):
                r.viol("C11|missing-path|%s|not-created" % label, "open of a missing path in mode %s: %r" % (label, exc), {})
        if f is not None:
            env.safe_close(f)
    env.rm(missing)
    r.outcomes.add("modes")
    # pre-existing files that are not NIX files: empty, not HDF5 at all, HDF5 without a NIX header
    for kind in ("zero-length", "not-hdf5", "hdf5-without-nix-header", "hdf5-other-format-tag"):
        for mode, label in ((nix.FileMode.ReadOnly, "ro"), (nix.FileMode.ReadWrite, "rw"), (nix.FileMode.Overwrite, "w")):
            p = env.fresh_path("c11foreign_")
            if kind == "zero-length":
                open(p, "wb").close()
            elif kind == "not-hdf5":
                with open(p, "wb") as fh:
                    fh.write(b"this is not an hdf5 file\n" * 40)
            else:
                with h5py.File(p, "w") as h:
                    h.create_group("payload").attrs["keep"] = 1
                    if kind == "hdf5-other-format-tag":
                        h.attrs["format"] = "odml"
                        h.attrs["version"] = np.array(LIBVER, dtype=np.int32)
                        h.attrs["id"] = VALID_ID
            h0 = sha(p)
            r.evals += 1
            r.nontrivial += 1
            try:
                f = nix.File.open(p, mode)
                exc = None
            except Exception as e:  # noqa
                f, exc = None, e
            r.outcomes.add("foreign:%s:%s:%s" % (kind, label, "opened" if exc is None else type(exc).__name__))
            try:
                if label == "w":
                    if exc is not None or len(f.blocks) or len(f.sections) or tuple(f.version) != LIBVER:
                        r.viol("C11|foreign-file|%s|w|not-a-fresh-file" % kind, "Overwrite of a %s file: %r" % (kind, exc), {})
                else:
                    if exc is None:
                        r.viol("C11|foreign-file|%s|%s|opened" % (kind, label),
                               "a pre-existing %s file was opened %s as a NIX file (File.mode=%r)" % (kind, label, f.mode), {})
            finally:
                if f is not None:
                    env.safe_close(f)
            # read-only never changes a byte.  (A refused read-write open is not asserted byte-identical: HDF5
            # itself rewrites superblock / free-space bookkeeping when a file is opened with write intent, and
            # initialises a zero-length file, before the NIX header check can refuse it.)
            if label == "ro" and (not os.path.exists(p) or sha(p) != h0):
                r.viol("C11|foreign-file|%s|%s|bytes-changed" % (kind, label),
                       "opening a pre-existing %s file %s changed its bytes (size now %s)" % (
                           kind, label, os.path.getsize(p) if os.path.exists(p) else None), {})
            env.rm(p)


def run_ro_ops(case, r):
    seed = case["seed"]
    path = env.fresh_path("c11ro_")
    twin = env.fresh_path("c11twin_")
    s = O.Session(path=path, build=explorer.SEEDS[seed])
    s.f.close()
    h0 = sha(path)
    s.reopen_ro = True
    s.f = nix.File.open(path, nix.FileMode.ReadOnly)
    s.mode = "ro"
    w0 = walker.walk(s.f, core=True)
    try:
        for op in case["ops"]:
            r.evals += 1
            try:
                O.impl_apply(s, op)
                exc = None
            except Exception as e:  # noqa
                exc = e
            r.transitions += 1
            r.outcomes.add("ro:%s" % ("silent" if exc is None else type(exc).__name__))
            if exc is not None:
                r.nontrivial += 1
                continue
            # silent: does it change a writable twin?
            shutil.copyfile(path, twin)
            t = O.Session.__new__(O.Session)
            t.path, t.auto_ts, t.caches, t.mode = twin, True, {"A": {}, "B": {}}, "rw"
            t.f = nix.File.open(twin, nix.FileMode.ReadWrite)
            try:
                tw0 = walker.walk(t.f, core=True)
                try:
                    O.impl_apply(t, op)
                    texc = None
                except Exception as e:  # noqa
                    texc = e
                tw1 = walker.walk(t.f, core=True)
            finally:
                env.safe_close(t.f)
            if texc is None and tw1 != tw0:
                r.nontrivial += 1
                r.viol("C11|read-only|%s|%s|mutator-accepted" % (explorer.opsig(op), seed),
                       "%r succeeded silently on a read-only file although it changes a writable copy: %s" % (
                           op, "; ".join(walker.diff(tw0, tw1, limit=2))), {"op": op})
        w1 = walker.walk(s.f, core=True)
        if w1 != w0:
            r.viol("C11|read-only|walk-changed-in-session|%s" % seed, "the read-only session shows a changed state: %s" % "; ".join(walker.diff(w0, w1, limit=3)), {})
        s.f.close()
        r.evals += 1
        if sha(path) != h0:
            r.viol("C11|read-only|bytes-changed|%s" % seed, "the bytes of the file changed during a read-only session with refused mutators", {})
    finally:
        env.safe_close(s.f)
        env.rm(path)
        env.rm(twin)


def candidate_values(cur):
    if isinstance(cur, str):
        return [cur + "x", None]
    if isinstance(cur, bool):
        return [not cur]
    if isinstance(cur, (int, float, np.integer, np.floating)):
        return [float(cur) + 1.5, None]
    if isinstance(cur, (tuple, list)):
        if len(cur) and isinstance(cur[0], str):
            return [list(cur) + ["s"], None]
        if len(cur):
            return [[float(np.asarray(x).ravel()[0]) + 1 for x in cur] if not isinstance(cur[0], str) else None, None]
        return [[1.0], ["ms"]]
    if cur is None:
        return ["set-by-ro", 2.5]
    return []


def entities(f):
    out = []
    for b in f.blocks:
        out.append((["blocks", b.name], b))
        for cn in ("data_arrays", "data_frames", "tags", "multi_tags", "groups"):
            for e in getattr(b, cn):
                out.append((["blocks", b.name, cn, e.name], e))
                if cn == "data_arrays":
                    for i, d in enumerate(e.dimensions):
                        out.append((["blocks", b.name, cn, e.name, "dimensions", i], d))
                if cn in ("tags", "multi_tags"):
                    for i, ft in enumerate(e.features):
                        out.append((["blocks", b.name, cn, e.name, "features", i], ft))

        def srcs(p, path):
            for s_ in p.sources:
                out.append((path + ["sources", s_.name], s_))
                srcs(s_, path + ["sources", s_.name])
        srcs(b, ["blocks", b.name])

    def secs(p, path):
        for s_ in p.sections:
            out.append((path + ["sections", s_.name], s_))
            for pr in s_.props:
                out.append((path + ["sections", s_.name, "props", pr.name], pr))
            secs(s_, path + ["sections", s_.name])
    secs(f, [])
    return out


def resolve(f, path):
    obj = f
    for i in range(0, len(path), 2):
        obj = getattr(obj, path[i])[path[i + 1]]
    return obj


def run_ro_setters(case, r):
    """every property with a setter or deleter on every entity (introspection)"""
    seed = case["seed"]
    path = env.fresh_path("c11s_")
    twin = env.fresh_path("c11st_")
    s = O.Session(path=path, build=explorer.SEEDS[seed])
    s.f.close()
    h0 = sha(path)
    f = nix.File.open(path, nix.FileMode.ReadOnly)
    try:
        w0 = walker.walk(f, core=True)
        for epath, e in entities(f):
            for name, prop in inspect.getmembers(type(e), lambda x: isinstance(x, property)):
                if name.startswith("_") or (prop.fset is None and prop.fdel is None):
                    continue
                try:
                    cur = getattr(e, name)
                except Exception:
                    cur = None
                actions = []
                if prop.fset is not None:
                    for v in candidate_values(cur):
                        actions.append(("set", v))
                if prop.fdel is not None:
                    actions.append(("del", None))
                for act, v in actions:
                    r.evals += 1
                    try:
                        if act == "set":
                            setattr(e, name, v)
                        else:
                            delattr(e, name)
                        exc = None
                    except Exception as ex:  # noqa
                        exc = ex
                    r.transitions += 1
                    r.outcomes.add("ro-setter:%s" % ("silent" if exc is None else type(exc).__name__))
                    if exc is not None:
                        r.nontrivial += 1
                        continue
                    shutil.copyfile(path, twin)
                    tf = nix.File.open(twin, nix.FileMode.ReadWrite)
                    try:
                        tw0 = walker.walk(tf, core=True)
                        try:
                            te = resolve(tf, epath)
                            if act == "set":
                                setattr(te, name, v)
                            else:
                                delattr(te, name)
                            texc = None
                        except Exception as ex:  # noqa
                            texc = ex
                        tw1 = walker.walk(tf, core=True)
                    finally:
                        env.safe_close(tf)
                    if texc is None and tw1 != tw0:
                        r.viol("C11|read-only|%s.%s|%s|setter-accepted" % (type(e).__name__, name, act),
                               "%s.%s (%s %r) succeeded silently on a read-only file although it changes a writable copy" % (
                                   type(e).__name__, name, act, v), {"path": epath})
        if walker.walk(f, core=True) != w0:
            r.viol("C11|read-only|walk-changed-in-session|setters|%s" % seed, "state changed in a read-only session", {})
        f.close()
        r.evals += 1
        if sha(path) != h0:
            r.viol("C11|read-only|bytes-changed|setters|%s" % seed, "the bytes of the file changed during a read-only session", {})
    finally:
        env.safe_close(f)
        env.rm(path)
        env.rm(twin)


def lookups(f):
    """every lookup form of every container of the file -> canonical result (reads only)"""
    out = {}
    walker.CORE[0] = True
    try:
        def cont(label, c):
            ids = [e.id for e in c]
            names = [e.name for e in c] if len(c) and hasattr(c[0], "name") else []
            out[label + "|iter"] = [walker.walk_obj(e) for e in c]
            for i in ids:
                out[label + "|id:" + i] = walker.walk_obj(c[i])
            for n in names:
                out[label + "|name:" + n] = walker.walk_obj(c[n])
            for k in range(len(ids)):
                out[label + "|pos:%d" % k] = walker.walk_obj(c[k])
        cont("blocks", f.blocks)
        cont("sections", f.sections)
        for b in f.blocks:
            for cn in ("data_arrays", "data_frames", "tags", "multi_tags", "groups", "sources"):
                cont("%s/%s" % (b.name, cn), getattr(b, cn))
            for g in b.groups:
                for cn in ("data_arrays", "tags", "multi_tags", "sources"):
                    cont("%s/groups/%s/%s" % (b.name, g.name, cn), getattr(g, cn))
            for t in list(b.tags) + list(b.multi_tags):
                cont("%s/%s/references" % (b.name, t.name), t.references)
        for sec in f.find_sections():
            cont("section:%s/props" % sec.id, sec.props)
            cont("section:%s/sections" % sec.id, sec.sections)
    finally:
        walker.CORE[0] = False
    return out


def run_ro_reads(case, r):
    """reads in a read-only session return the same results as in a writable session - also when entities of
    different parents share a name or (after a keep-id copy) an id but differ in content"""
    path = env.fresh_path("c11rr_")
    s = O.Session(path=path, build=explorer.SEEDS["rich"])
    f = s.f
    b, o = f.blocks["blk"], f.blocks["Ablk"]
    for kind, name in (("data_array", "feat"), ("data_array", "evt"), ("tag", "tag2"), ("data_frame", "frame")):
        pass
    c1 = o.create_data_array(copy_from=b.data_arrays["feat"])            # same name, same id, other block
    c1.label = "copy in the other block"
    c1[0] = 999
    c2 = o.create_data_array(name="renamed", copy_from=b.data_arrays["apos"])
    c2.definition = "renamed keep-id copy"
    sec = f.sections["other"].copy_section(f.sections["sec"].sections["sec"], name="copied")   # keep id, other parent
    sec.repository = "copy repo"
    f.sections["other"].create_property(copy_from=f.sections["sec"].props["pint"], name="pint-copy").values = [42]
    f.close()
    res = {}
    for mode, label in ((nix.FileMode.ReadWrite, "rw"), (nix.FileMode.ReadOnly, "ro"), (nix.FileMode.ReadOnly, "ro-reversed")):
        ff = nix.File.open(path, mode)
        try:
            if label == "ro-reversed":
                # a different order of first accesses must not matter
                for blk in reversed(list(ff.blocks)):
                    for e in reversed(list(blk.data_arrays)):
                        _ = blk.data_arrays[e.id].label
                for sc in reversed(ff.find_sections()):
                    for pr in sc.props:
                        _ = sc.props[pr.id].values
            res[label] = lookups(ff)
        finally:
            ff.close()
    for label in ("ro", "ro-reversed"):
        for k, v in res["rw"].items():
            r.evals += 1
            r.nontrivial += 1
            if res[label].get(k) != v:
                r.viol("C11|read-only|reads-differ-from-writable-session|%s|%s" % (label, k.split("|")[1].split(":")[0]),
                       "lookup %s gives a different result in a %s session than in a writable session: %s" % (
                           k[:80], label, "; ".join(walker.diff(v, res[label].get(k), limit=2))), {})
                env.rm(path)
                return
    r.outcomes.add("ro-reads")
    env.rm(path)


RO_MUTATORS = [
    ("create_block", lambda f: f.create_block("made-by-ro", "t")),
    ("create_section", lambda f: f.create_section("made-by-ro", "t")),
    ("set-definition", lambda f: setattr(f.blocks["blk"], "definition", "set-by-ro")),
    ("write-data", lambda f: f.blocks["blk"].data_arrays["sig"].__setitem__((0, 0), 99.0)),
    ("append-data", lambda f: f.blocks["blk"].data_arrays["sig"].append(np.array([[7.0, 8.0]]), axis=0)),
    ("link", lambda f: f.blocks["blk"].groups["grp"].sources.append(f.blocks["blk"].sources["src"])),
    ("unlink", lambda f: f.blocks["blk"].groups["grp"].data_arrays.__delitem__(0)),
    ("delete-array", lambda f: f.blocks["blk"].data_arrays.__delitem__("sig")),
    ("delete-block", lambda f: f.blocks.__delitem__("blk")),
    ("property-values", lambda f: setattr(f.sections["sec"].props["p"], "values", [5, 6])),
    ("force-timestamp", lambda f: f.blocks["blk"].force_updated_at(12345)),
]


def run_ro_shared(case, r):
    """a read-only handle while OTHER handles to the same file are open in the same process"""
    cfg = case["cfg"]
    path = env.fresh_path("c11sh_")
    s = O.Session(path=path, build=explorer.SEEDS["mini"])
    s.f.close()
    for mname, mut in RO_MUTATORS:
        others = []
        ro = None
        try:
            if cfg == "rw-opened-first":
                others.append(nix.File.open(path, nix.FileMode.ReadWrite))
            elif cfg == "ro-opened-first":
                others.append(nix.File.open(path, nix.FileMode.ReadOnly))
            h0 = sha(path)
            try:
                ro = nix.File.open(path, nix.FileMode.ReadOnly)
            except Exception as e:  # noqa
                # refusing the second open protects the file as well
                r.outcomes.add("shared:%s:open-refused-%s" % (cfg, type(e).__name__))
                r.evals += 1
                continue
            if cfg == "rw-opened-later":
                try:
                    others.append(nix.File.open(path, nix.FileMode.ReadWrite))
                    r.outcomes.add("shared:rw-opened-later:accepted")
                except Exception as e:  # noqa
                    r.outcomes.add("shared:rw-opened-later:refused-%s" % type(e).__name__)
            w0 = walker.walk(ro, core=True)
            r.evals += 1
            r.nontrivial += 1
            try:
                mut(ro)
                exc = None
            except Exception as e:  # noqa
                exc = e
            r.transitions += 1
            r.outcomes.add("shared:%s:%s" % (cfg, "accepted" if exc is None else type(exc).__name__))
            changed = walker.walk(ro, core=True) != w0
            ro.close()
            ro = None
            for o in others:
                o.close()
            others = []
            if exc is None or changed or sha(path) != h0:
                r.viol("C11|read-only|%s|mutator-%s" % (cfg, "accepted" if exc is None else "refused-but-file-changed"),
                       "with %s, %s through the ReadOnly handle %s; state changed: %r; bytes changed: %r" % (
                           cfg.replace("-", " "), mname, "succeeded" if exc is None else "raised %s" % type(exc).__name__,
                           changed, sha(path) != h0), {"mutator": mname})
                # restore for the next mutator
                env.rm(path)
                s = O.Session(path=path, build=explorer.SEEDS["mini"])
                s.f.close()
        finally:
            if ro is not None:
                env.safe_close(ro)
            for o in others:
                env.safe_close(o)
    env.rm(path)


def run_case(case):
    r = R()
    if case["k"] == "ro-shared":
        run_ro_shared(case, r)
        return r
    {"ro-reads": run_ro_reads, "lattice": run_lattice, "modes": run_modes, "ro-ops": run_ro_ops, "ro-setters": run_ro_setters}[case["k"]](case, r)
    return r
