"""C14 - validation reports every catalogued inconsistency, nothing on consistent files.

E3: generated well-formed files x every catalogue inconsistency injected at
every eligible object (singly and pairwise).  Oracle: the injected kind must
be reported at the injected object; no error may appear on an object that was
neither injected nor is related to an injected object; uninjected files
validate without errors.
"""
import itertools

import h5py
import numpy as np

from mc import env
from mc.core import R, jhash
import nixio as nix

LEVEL = "fault_enumeration"
RULE = ("recipes: blocks with arrays of rank 1-3 (every descriptor kind, with/without units), tags and multi-tags whose "
        "position/extent/unit lengths match their references with convertible units, groups, source and section trees "
        "with properties; injections: every catalogue inconsistency (missing/surplus descriptor, tick/label count "
        "mismatch, missing/unsorted ticks, non-SI dimension or tag unit, missing/zero/negative sampling interval, missing "
        "position(s), position/extent/unit length mismatch, unconvertible units, missing type/name) at every eligible "
        "object, and every unordered pair of injections on different slots; non-trivial = validation of an injected file; "
        "distinct by construction")
ASSUMPTIONS = [
    "documented precedence is allowed: 'no ticks' may mask/duplicate 'count mismatch'; 'no position' implies the length mismatches",
    "errors on objects related to an injected object (a tag referencing a broken array and vice versa) are not asserted",
    "warnings are not asserted; a missing id or creation date cannot be injected without making the entity unreadable "
    "(recorded as a known finding, checked separately)",
]
CHUNK = 8
KINDS = {
    "no-type": "no type set", "no-name": "no name set", "no-id": "no ID set", "no-date": "date is not set",
    "dim-mismatch": "data dimensionality does not match", "ticks-mismatch": "number of ticks in RangeDimension",
    "labels-mismatch": "number of labels in SetDimension", "no-position": "position is not set",
    "pos-dim-mismatch": "number of entries in position does not match", "ext-dim-mismatch": "number of entries in extent does not match",
    "pos-ext-mismatch": "number of entries in position and extent do not match", "units-mismatch": "don't have units where the Tag has",
    "units-incompatible": "not convertible to the units set in the Tag", "invalid-unit": "unit is invalid: not an atomic SI",
    "no-positions": "positions are not set", "positions-dim-mismatch": "(in 2nd dim) in positions does not match",
    "extents-dim-mismatch": "(in 2nd dim) in extents does not match", "positions-extents-mismatch": "number of entries in positions and extents do not match",
    "no-ticks": "ticks for dimension", "unsorted-ticks": "are not sorted", "invalid-dim-unit": "is set but it is not an atomic SI unit",
    "no-interval": "is not set", "invalid-interval": "is not valid (interval > 0)",
}


def kinds_of(msgs):
    out = set()
    for m in msgs:
        for k, sub in KINDS.items():
            if sub in m:
                if k == "no-ticks" and "are not set" not in m:
                    continue
                if k == "no-interval" and "sampling interval" not in m:
                    continue
                out.add(k)
    return out


RECIPES = [
    {"units": True, "rank3": False}, {"units": False, "rank3": False}, {"units": True, "rank3": True}, {"units": False, "rank3": True},
    # the same with a second, consistent block whose entities carry the same names and other units (singles only)
    {"units": True, "rank3": True, "decoy": "first"}, {"units": True, "rank3": True, "decoy": "last"},
    # arrays that are not small: rank 11, 2100 ticks (singles only)
    {"units": True, "rank3": False, "big": True}, {"units": False, "rank3": False, "big": True},
]


def build_decoy(f, bname):
    """a consistent block whose arrays and tags have the SAME NAMES as the main block's but other units"""
    b = f.create_block(bname, "blocktype")
    a1 = b.create_data_array("a1", "signal", data=np.arange(4.0), unit="A")
    a1.append_range_dimension([0.0, 1.0, 2.5, 4.0], unit="kHz")
    a2 = b.create_data_array("a2", "signal", data=np.arange(6.0).reshape(2, 3))
    a2.append_set_dimension(["x", "y"])
    a2.append_sampled_dimension(0.5, unit="Hz")
    a2b = b.create_data_array("a2b", "signal", data=np.arange(6.0).reshape(2, 3))
    a2b.append_set_dimension(["x", "y"])
    a2b.append_sampled_dimension(0.25, unit="Hz")
    a3 = b.create_data_array("a3", "signal", data=np.arange(12.0).reshape(2, 3, 2))
    a3.append_sampled_dimension(2.0, unit="K")
    a3.append_range_dimension([1.0, 2.0, 3.0], unit="mol")
    a3.append_set_dimension()
    t1 = b.create_tag("t1", "tagtype", [1.0])
    t1.extent = [1.5]
    t1.units = ["Hz"]
    t1.references.append(a1)
    t2 = b.create_tag("t2", "tagtype", [0.0, 1.5])
    t2.extent = [1.0, 0.5]
    t2.units = ["", "mHz"]
    t2.references.append(a2)
    t2.references.append(a2b)
    t3 = b.create_tag("t3", "tagtype", [2.0, 1.0, 0.0])
    t3.units = ["mK", "mmol", ""]
    t3.references.append(a3)
    pos = b.create_data_array("pos", "positions", data=np.array([[0.0, 1.0], [1.0, 1.5]]))
    pos.append_set_dimension()
    pos.append_set_dimension()
    mt = b.create_multi_tag("mt", "mtagtype", pos)
    mt.units = ["", "kHz"]
    mt.references.append(a2b)
    mt.references.append(a2)


def build(f, rec):
    u = rec["units"]
    if rec.get("decoy") == "first":
        build_decoy(f, "Ablk")
    sec = f.create_section("sec", "sectype")
    sub = sec.create_section("sub", "sectype")
    sec.create_property("p", [1])
    sub.create_property("q", ["x"])
    b = f.create_block("blk", "blocktype")
    a1 = b.create_data_array("a1", "signal", data=np.arange(4.0), unit="mV" if u else None)
    a1.append_range_dimension([0.0, 1.0, 2.5, 4.0], unit="ms" if u else None)
    a2 = b.create_data_array("a2", "signal", data=np.arange(6.0).reshape(2, 3))
    a2.append_set_dimension(["x", "y"])
    a2.append_sampled_dimension(0.5, unit="ms" if u else None, offset=1.0 if u else None)
    a2b = b.create_data_array("a2b", "signal", data=np.arange(6.0).reshape(2, 3) * 2)
    a2b.append_set_dimension(["x", "y"])
    a2b.append_sampled_dimension(0.25, unit="ms" if u else None)
    arrays = {"a1": a1, "a2": a2, "a2b": a2b}
    if rec["rank3"]:
        a3 = b.create_data_array("a3", "signal", data=np.arange(12.0).reshape(2, 3, 2))
        a3.append_sampled_dimension(2.0, unit="s" if u else None)
        a3.append_range_dimension([1.0, 2.0, 3.0], unit="mV" if u else None)
        a3.append_set_dimension()
        arrays["a3"] = a3
    t1 = b.create_tag("t1", "tagtype", [1.0])
    t1.extent = [1.5]
    t1.units = ["us" if u else ""]
    t1.references.append(a1)
    t2 = b.create_tag("t2", "tagtype", [0.0, 1.5])
    t2.extent = [1.0, 0.5]
    t2.units = ["", "s" if u else ""]
    t2.references.append(a2)
    t2.references.append(a2b)
    pos = b.create_data_array("pos", "positions", data=np.array([[0.0, 1.0], [1.0, 1.5]]))
    pos.append_set_dimension()
    pos.append_set_dimension()
    ext = b.create_data_array("ext", "extents", data=np.array([[1.0, 0.5], [0.0, 0.5]]))
    ext.append_set_dimension()
    ext.append_set_dimension()
    mt = b.create_multi_tag("mt", "mtagtype", pos)
    mt.extents = ext
    mt.units = ["", "ms" if u else ""]
    mt.references.append(a2b)
    mt.references.append(a2)
    tags = {"t1": t1, "t2": t2}
    if rec["rank3"]:
        t3 = b.create_tag("t3", "tagtype", [2.0, 1.0, 0.0])
        t3.units = ["ms" if u else "", "uV" if u else "", ""]
        t3.references.append(arrays["a3"])
        tags["t3"] = t3
    g = b.create_group("grp", "grouptype")
    g.data_arrays.append(a1)
    g.tags.append(t1)
    s1 = b.create_source("src", "sourcetype")
    s1.create_source("src", "sourcetype")
    b.metadata = sec
    a1.metadata = sub
    if rec.get("big"):
        # an array of rank 11 (descriptors 1..11, every kind) with a tag that gives a position in all 11 dimensions,
        # and an array with a range dimension of 2100 ticks
        a11 = b.create_data_array("a11", "signal", data=np.zeros((2,) + (1,) * 10))
        tunits = []
        for i in range(11):
            if i % 3 == 0:
                a11.append_set_dimension(["p", "q"] if i == 0 else ["p"])
                tunits.append("")
            elif i % 3 == 1:
                a11.append_sampled_dimension(0.5 * (i + 1), unit=("ms", "mV", "s", "Hz")[i % 4] if u else None)
                tunits.append((("us", "uV", "ms", "kHz")[i % 4]) if u else "")
            else:
                a11.append_range_dimension([float(i)], unit=("A", "K", "mol")[i % 3] if u else None)
                tunits.append((("mA", "mK", "mmol")[i % 3]) if u else "")
        arrays["a11"] = a11
        t11 = b.create_tag("t11", "tagtype", [0.0] * 11)
        t11.units = tunits
        t11.references.append(a11)
        tags["t11"] = t11
        along = b.create_data_array("along", "signal", data=np.zeros(2100))
        along.append_range_dimension([float(i) * 0.5 for i in range(2100)], unit="ms" if u else None)
        arrays["along"] = along
    if rec.get("decoy") == "last":
        build_decoy(f, "zblk")
    return {"b": b, "arrays": arrays, "tags": tags, "mt": mt, "pos": pos, "ext": ext, "grp": g, "src": s1, "sec": sec, "sub": sub}


# ------------------------------------------------------------------ injections
# each: (name, slot, eligible(ctx, rec) -> list of target keys, apply(ctx, key), expected kind(s) (any of), related object keys)

def raw_del_attr(e, attr):
    e._h5group.group.attrs.__delitem__(attr)


def redim(da, specs):
    da.delete_dimensions()
    for sp in specs:
        if sp[0] == "set":
            da.append_set_dimension(sp[1])
        elif sp[0] == "sampled":
            da.append_sampled_dimension(sp[1], unit=sp[2])
        else:
            da.append_range_dimension(sp[1], unit=sp[2])


def refs_of(ctx, akey):
    """tags / multi-tags referencing the array"""
    out = []
    aid = ctx["arrays"][akey].id
    for k, t in ctx["tags"].items():
        if any(x.id == aid for x in t.references):
            out.append(("tag", k))
    if any(x.id == aid for x in ctx["mt"].references):
        out.append(("mt", None))
    return out


def obj(ctx, key):
    kind, k = key
    if kind == "array":
        return ctx["arrays"][k]
    if kind == "tag":
        return ctx["tags"][k]
    if kind == "mt":
        return ctx["mt"]
    return ctx[kind]


def dims_kinds(da):
    return [type(d).__name__ for d in da.dimensions]


INJ = []


def inj(name, slot, kinds):
    def deco(fn):
        INJ.append({"name": name, "slot": slot, "kinds": kinds, "fn": fn})
        return fn
    return deco


def array_keys(ctx):
    return [("array", k) for k in ctx["arrays"]]


@inj("missing-descriptor", "dims", ["dim-mismatch"])
def _i1(ctx, rec):
    out = []
    for key in array_keys(ctx):
        def ap(ctx, key=key):
            da = obj(ctx, key)
            d = da.dimensions[len(da.dimensions) - 1]
            da._h5group.open_group("dimensions").delete(str(len(da.dimensions)))
        out.append((key, ap, refs_of(ctx, key[1])))
    return out


@inj("surplus-descriptor", "dims", ["dim-mismatch"])
def _i2(ctx, rec):
    return [(key, (lambda ctx, key=key: obj(ctx, key).append_set_dimension()), refs_of(ctx, key[1])) for key in array_keys(ctx)]


@inj("tick-count-mismatch", "ticks", ["ticks-mismatch"])
def _i3(ctx, rec):
    out = []
    for key in array_keys(ctx):
        da = obj(ctx, key)
        for i, d in enumerate(da.dimensions):
            if isinstance(d, nix.RangeDimension):
                out.append((key, (lambda ctx, key=key, i=i: setattr(obj(ctx, key).dimensions[i], "ticks", [0.0, 1.0])), refs_of(ctx, key[1])))
    return out


@inj("label-count-mismatch", "labels", ["labels-mismatch"])
def _i4(ctx, rec):
    out = []
    for key in array_keys(ctx):
        da = obj(ctx, key)
        for i, d in enumerate(da.dimensions):
            if isinstance(d, nix.SetDimension):
                out.append((key, (lambda ctx, key=key, i=i: setattr(obj(ctx, key).dimensions[i], "labels", ["only-one", "two", "three", "four", "five"])), []))
    return out


@inj("missing-ticks", "ticks", ["no-ticks"])
def _i5(ctx, rec):
    out = []
    for key in array_keys(ctx):
        da = obj(ctx, key)
        for i, d in enumerate(da.dimensions):
            if isinstance(d, nix.RangeDimension):
                out.append((key, (lambda ctx, key=key, i=i: obj(ctx, key).dimensions[i]._h5group.delete("ticks", False)), refs_of(ctx, key[1])))
    return out


@inj("unsorted-ticks", "ticks", ["unsorted-ticks"])
def _i6(ctx, rec):
    out = []
    for key in array_keys(ctx):
        da = obj(ctx, key)
        for i, d in enumerate(da.dimensions):
            if isinstance(d, nix.RangeDimension):
                n = len(d.ticks)
                vals = [1.0] * 2 + [float(x + 2) for x in range(n - 2)]      # equal neighbours: accepted by the setter
                out.append((key, (lambda ctx, key=key, i=i, vals=vals: setattr(obj(ctx, key).dimensions[i], "ticks", vals)), refs_of(ctx, key[1])))
    return out


@inj("unsorted-ticks-from-linked-array", "ticks", ["unsorted-ticks"])
def _i6b(ctx, rec):
    """the ticks come from a linked array (unsigned / signed integer / float element type) whose values decrease"""
    out = []
    for key in array_keys(ctx):
        da = obj(ctx, key)
        for i, d in enumerate(da.dimensions):
            if isinstance(d, nix.RangeDimension):
                n = len(d.ticks)
                if n > 200:
                    continue            # (long tick vectors: see unsorted-ticks-deep-inside)
                for dt in ("uint8", "int16", "float64", "uint64"):
                    vals = np.array([5, 3] + [7 + x for x in range(n - 2)], dtype=dt)

                    def ap(ctx, key=key, i=i, vals=vals, dt=dt):
                        b = ctx["b"]
                        name = "ticksrc-%s-%d-%s" % (key[1], i, dt)
                        src = b.create_data_array(name, "ticks", data=vals)
                        src.append_set_dimension()
                        obj(ctx, key).dimensions[i].link_data_array(src, [-1])
                    out.append((key, ap, refs_of(ctx, key[1])))
    return out


@inj("unsorted-ticks-deep-inside", "ticks", ["unsorted-ticks"])
def _i6c(ctx, rec):
    """two equal neighbours somewhere inside a long tick vector (positions 1023/1024, 2047/2048, ...)"""
    out = []
    for key in array_keys(ctx):
        da = obj(ctx, key)
        for i, d in enumerate(da.dimensions):
            if isinstance(d, nix.RangeDimension) and len(d.ticks) > 1030:
                n = len(d.ticks)
                for k in (1023, 1024, 2047, 1500, n - 2):
                    vals = [float(x) * 0.5 for x in range(n)]
                    vals[k + 1] = vals[k]
                    out.append((key, (lambda ctx, key=key, i=i, vals=vals: setattr(obj(ctx, key).dimensions[i], "ticks", vals)), refs_of(ctx, key[1])))
    return out


@inj("non-si-dimension-unit", "dimunit", ["invalid-dim-unit"])
def _i7(ctx, rec):
    out = []
    for key in array_keys(ctx):
        da = obj(ctx, key)
        for i, d in enumerate(da.dimensions):
            if not isinstance(d, nix.SetDimension):
                for bad in ("furlong", "mV/s"):
                    out.append((key, (lambda ctx, key=key, i=i, bad=bad: setattr(obj(ctx, key).dimensions[i], "unit", bad)), refs_of(ctx, key[1])))
    return out


@inj("non-si-tag-unit", "tagunits", ["invalid-unit"])
def _i8(ctx, rec):
    out = []
    for k, t in ctx["tags"].items():
        n = len(t.units)
        out.append((("tag", k), (lambda ctx, k=k, n=n: setattr(ctx["tags"][k], "units", ["furlong"] + [""] * (n - 1) if n > 1 else ["furlong"])), []))
    out.append((("mt", None), (lambda ctx: setattr(ctx["mt"], "units", ["furlong", ""])), []))
    return out


@inj("missing-sampling-interval", "interval", ["no-interval"])
def _i9(ctx, rec):
    out = []
    for key in array_keys(ctx):
        da = obj(ctx, key)
        for i, d in enumerate(da.dimensions):
            if isinstance(d, nix.SampledDimension):
                out.append((key, (lambda ctx, key=key, i=i: obj(ctx, key).dimensions[i]._h5group.set_attr("sampling_interval", None)), []))
    return out


@inj("negative-sampling-interval", "interval", ["invalid-interval"])
def _i10(ctx, rec):
    out = []
    for key in array_keys(ctx):
        da = obj(ctx, key)
        for i, d in enumerate(da.dimensions):
            if isinstance(d, nix.SampledDimension):
                out.append((key, (lambda ctx, key=key, i=i: setattr(obj(ctx, key).dimensions[i], "sampling_interval", -0.5)), []))
    return out


@inj("missing-position", "position", ["no-position"])
def _i11(ctx, rec):
    return [(("tag", k), (lambda ctx, k=k: setattr(ctx["tags"][k], "position", None)), []) for k in ctx["tags"]]


@inj("position-length-mismatch", "position", ["pos-dim-mismatch"])
def _i12(ctx, rec):
    return [(("tag", k), (lambda ctx, k=k: setattr(ctx["tags"][k], "position", list(ctx["tags"][k].position) + [1.0])), []) for k in ctx["tags"]]


@inj("extent-length-mismatch", "extent", ["pos-ext-mismatch", "ext-dim-mismatch"])
def _i13(ctx, rec):
    return [(("tag", k), (lambda ctx, k=k: setattr(ctx["tags"][k], "extent", [1.0] * (len(ctx["tags"][k].position) + 1))), []) for k in ctx["tags"]]


@inj("units-length-mismatch", "tagunits", ["units-mismatch"])
def _i14(ctx, rec):
    out = [(("tag", k), (lambda ctx, k=k: setattr(ctx["tags"][k], "units", list(ctx["tags"][k].units) + ["ms"])), []) for k in ctx["tags"]]
    out.append((("mt", None), (lambda ctx: setattr(ctx["mt"], "units", list(ctx["mt"].units) + ["ms"])), []))
    return out


@inj("unconvertible-units", "tagunits", ["units-incompatible"])
def _i15(ctx, rec):
    out = []
    if rec["units"]:
        out.append((("tag", "t1"), (lambda ctx: setattr(ctx["tags"]["t1"], "units", ["mV"])), []))
        out.append((("tag", "t2"), (lambda ctx: setattr(ctx["tags"]["t2"], "units", ["", "mV"])), []))
        out.append((("mt", None), (lambda ctx: setattr(ctx["mt"], "units", ["", "kg"])), []))
    return out


@inj("unit-with-power-vs-plain", "tagunits", ["units-incompatible"])
def _i15b(ctx, rec):
    out = []
    if rec["units"]:
        out.append((("tag", "t1"), (lambda ctx: setattr(ctx["tags"]["t1"], "units", ["ms^2"])), []))
        out.append((("tag", "t2"), (lambda ctx: setattr(ctx["tags"]["t2"], "units", ["", "s^-1"])), []))
    return out


@inj("reference-dimension-unit-unconvertible", "refunit", ["units-incompatible"])
def _i15c(ctx, rec):
    """a valid SI unit on ONE referenced array's dimension that cannot be converted to the tag's unit; the tag must report it"""
    out = []
    if rec["units"]:
        for akey in ("a2", "a2b"):
            rel = [("array", akey)] + refs_of(ctx, akey)
            out.append((("tag", "t2"), (lambda ctx, akey=akey: setattr(ctx["arrays"][akey].dimensions[1], "unit", "V")), rel))
            out.append((("mt", None), (lambda ctx, akey=akey: setattr(ctx["arrays"][akey].dimensions[1], "unit", "kV")), rel))
    return out


@inj("positions-dimension-mismatch", "positions", ["positions-dim-mismatch"])
def _i16(ctx, rec):
    def ap(ctx):
        b = ctx["b"]
        p3 = b.create_data_array("pos3", "positions", data=np.zeros((2, 3)))
        p3.append_set_dimension()
        p3.append_set_dimension()
        ctx["mt"].positions = p3
    return [(("mt", None), ap, [])]


@inj("extents-shape-mismatch", "extents", ["positions-extents-mismatch"])
def _i17(ctx, rec):
    def ap(ctx):
        b = ctx["b"]
        e3 = b.create_data_array("ext3", "extents", data=np.zeros((3, 2)))
        e3.append_set_dimension()
        e3.append_set_dimension()
        ctx["mt"].extents = e3
    return [(("mt", None), ap, [])]


@inj("missing-type", "type", ["no-type"])
def _i18(ctx, rec):
    keys = [("b", None), ("grp", None), ("src", None), ("sec", None), ("sub", None), ("mt", None), ("array", "a1"), ("array", "a2"), ("tag", "t1")]
    return [(key, (lambda ctx, key=key: resolve(ctx, key)._h5group.set_attr("type", None)), []) for key in keys]


@inj("empty-type", "type", ["no-type"])
def _i19(ctx, rec):
    keys = [("grp", None), ("src", None), ("sub", None), ("array", "a2"), ("tag", "t2")]
    return [(key, (lambda ctx, key=key: setattr(resolve(ctx, key), "type", "")), []) for key in keys]


@inj("missing-name", "name", ["no-name"])
def _i20(ctx, rec):
    keys = [("grp", None), ("src", None), ("sub", None), ("array", "a1"), ("tag", "t1"), ("mt", None)]
    return [(key, (lambda ctx, key=key: resolve(ctx, key)._h5group.set_attr("name", None)), []) for key in keys]


@inj("missing-id", "id", ["no-id"])
def _i21(ctx, rec):
    keys = [("grp", None), ("sub", None), ("array", "a1"), ("tag", "t1")]
    return [(key, (lambda ctx, key=key: resolve(ctx, key)._h5group.set_attr("entity_id", None)), []) for key in keys]


@inj("missing-date", "date", ["no-date"])
def _i22(ctx, rec):
    keys = [("grp", None), ("sub", None), ("array", "a1"), ("tag", "t1")]
    return [(key, (lambda ctx, key=key: resolve(ctx, key)._h5group.set_attr("created_at", None)), []) for key in keys]


SINGLES_ONLY = {"missing-id", "missing-date"}


def resolve(ctx, key):
    kind, k = key
    if kind in ("array", "tag", "mt"):
        return obj(ctx, key)
    return ctx[kind]


def catalogue(rec):
    """all (injection name, index) instances for a recipe; enumerated on a scratch build"""
    env.install_seams()
    env.reset_execution()
    path = env.fresh_path("c14cat_")
    f = nix.File.open(path, nix.FileMode.Overwrite)
    try:
        ctx = build(f, rec)
        out = []
        for ii, I in enumerate(INJ):
            n = len(I["fn"](ctx, rec))
            for j in range(n):
                out.append((ii, j))
        return out
    finally:
        env.safe_close(f)
        env.rm(path)


def BOUNDS(tier):
    return {"recipes": len(RECIPES), "injections_per_recipe": [len(catalogue(r_)) for r_ in RECIPES],
            "pairs": "all unordered pairs on different slots" if tier == "thorough" else "all unordered pairs within recipes 0 and 2"}


def cases(tier):
    for ri, rec in enumerate(RECIPES):
        cat = catalogue(rec)
        yield {"recipe": ri, "inj": []}
        for a in cat:
            yield {"recipe": ri, "inj": [list(a)]}
        if tier == "thorough" or ri in (0, 2):
            for a, b in itertools.combinations(cat, 2):
                if INJ[a[0]]["name"] in SINGLES_ONLY or INJ[b[0]]["name"] in SINGLES_ONLY:
                    continue
                yield {"recipe": ri, "inj": [list(a), list(b)]}


def run_case(case):
    r = R()
    r.evals = 1
    rec = RECIPES[case["recipe"]]
    env.install_seams()
    env.reset_execution()
    path = env.fresh_path("c14_")
    f = nix.File.open(path, nix.FileMode.Overwrite)
    try:
        ctx = build(f, rec)
        applied = []          # (object id, injection, related ids)
        slots = set()
        plan = []
        for ii, j in case["inj"]:
            I = INJ[ii]
            key, ap, related = I["fn"](ctx, rec)[j]       # resolved on the clean file, before anything is applied
            plan.append((I, key, ap, related))
        interacting = False
        if len(plan) == 2:
            (_i1, k1, _a1, rel1), (_i2, k2, _a2, rel2) = plan
            interacting = k1 in rel2 or k2 in rel1
        for I, key, ap, related in plan:
            slot = (key, I["slot"])
            if slot in slots or (key, "dims") in slots and I["slot"] in ("ticks", "labels", "dimunit", "interval") or \
                    (I["slot"] == "dims" and any(s_[0] == key for s_ in slots)):
                return r        # two injections into the same slot do not compose
            slots.add(slot)
            target = resolve(ctx, key)
            tid = target.id
            try:
                ap(ctx)
            except (IndexError, KeyError):
                return r        # the first injection removed what the second one needs: the pair does not compose
            applied.append((tid, I, [resolve(ctx, k_).id for k_ in related], key))
        if applied:
            r.nontrivial = 1
        try:
            res = f.validate()
        except Exception as e:  # noqa
            r.viol("C14|validate-raises-%s|%s" % (type(e).__name__, "+".join(sorted(a[1]["name"] for a in applied)) or "clean"),
                   "validate() raises %s: %s with injections %r" % (type(e).__name__, str(e)[:100], [a[1]["name"] for a in applied]), {})
            return r
        r.transitions += 1
        errors = {}
        for o, msgs in res["errors"].items():
            oid = o.id if not isinstance(o, nix.File) else "FILE"
            errors.setdefault(oid, set()).update(kinds_of(msgs))
            if not kinds_of(msgs) and msgs:
                errors[oid].add("other:" + msgs[0][:40])
        inj_ids = {a[0] for a in applied}
        related = set()
        for a in applied:
            related.update(a[2])
        names = "+".join(sorted(a[1]["name"] for a in applied)) or "clean"
        r.outcomes.add("errors:%d" % len(errors))
        # two injections on objects that refer to each other can cancel (removing the descriptor that carried the
        # conflicting unit, adding a descriptor that makes the lengths match again): only rule (2) is asserted there
        if interacting:
            r.outcomes.add("interacting-pair")
        # (1) injected kinds reported at the injected object
        for tid, I, _rel, key in ([] if interacting else applied):
            got = errors.get(tid, set())
            if not any(k in got for k in I["kinds"]):
                # documented masking
                if I["name"] in ("tick-count-mismatch", "unsorted-ticks", "unsorted-ticks-from-linked-array", "unsorted-ticks-deep-inside") and "no-ticks" in got:
                    continue
                if I["name"] == "negative-sampling-interval" and "no-interval" in got:
                    continue
                r.viol("C14|not-reported|%s|%s|%s" % (I["name"], key[0], "single" if len(applied) == 1 else "with:" + names),
                       "injection %s at %r is not reported (errors there: %r); all injections: %s" % (I["name"], key, sorted(got), names), {})
                return r
        # (2) nothing on unrelated objects
        for oid, ks in errors.items():
            if oid in inj_ids or oid in related:
                continue
            r.viol("C14|surplus-error|%s|%s" % (names if len(applied) <= 1 else "pair", sorted(ks)[0] if ks else "?"),
                   "validation reports %r on an object that has no inconsistency (injections: %s)" % (sorted(ks), names), {})
            return r
        # (2b) on the injected objects only kinds that the injections can explain
        allowed_extra = {
            "missing-position": {"pos-dim-mismatch", "pos-ext-mismatch"}, "position-length-mismatch": {"pos-ext-mismatch"},
            "extent-length-mismatch": {"pos-ext-mismatch", "ext-dim-mismatch"}, "missing-ticks": {"ticks-mismatch"},
            "non-si-tag-unit": {"units-incompatible"}, "units-length-mismatch": {"units-incompatible"},
            "positions-dimension-mismatch": {"positions-extents-mismatch", "extents-dim-mismatch"},
            "extents-shape-mismatch": {"extents-dim-mismatch"}, "missing-descriptor": {"units-mismatch"},
            "surplus-descriptor": {"units-mismatch"}, "unsorted-ticks": {"ticks-mismatch"},
            "unsorted-ticks-from-linked-array": {"ticks-mismatch"}, "unsorted-ticks-deep-inside": {"ticks-mismatch"},
            "missing-sampling-interval": set(), "non-si-dimension-unit": set(),
        }
        for tid, I, _rel, key in ([] if interacting else applied):
            ok_kinds = set()
            for t2, I2, rel2, _k2 in applied:
                if t2 == tid:
                    ok_kinds |= set(I2["kinds"]) | allowed_extra.get(I2["name"], set())
                if tid in rel2:
                    ok_kinds |= {"units-mismatch", "units-incompatible", "pos-dim-mismatch", "ext-dim-mismatch", "positions-dim-mismatch",
                                 "extents-dim-mismatch"}
            extra = errors.get(tid, set()) - ok_kinds
            if extra:
                r.viol("C14|unexplained-error|%s|%s" % (I["name"] if len(applied) == 1 else "pair", sorted(extra)[0]),
                       "object with injection(s) %s also reports %r" % (names, sorted(extra)), {})
                return r
        r.traces = 1
        r.states.add(jhash([case["recipe"], names]))
        return r
    finally:
        env.safe_close(f)
        env.rm(path)
