"""C17 - flush() and close() make everything written so far survive a process kill.

E3: for every writer history of the bounded set, a child process runs it on
the real library, records the walk of the state, calls flush() (or close())
and kills itself with SIGKILL immediately after the call returns.  The
parent then opens the file read-only and read-write and compares the walk.
The set of histories is prefix-closed, so this is every flush/close point of
every history in the bound.
"""
import json
import os
import signal

import numpy as np

from mc import env
from mc import explorer, walker, ops as O
from mc.core import R, jhash
import nixio as nix

LEVEL = "fault_enumeration"
RULE = ("writer histories: every operation of the alphabet of mc/ops.py from the seeds rich and mini (depth 1), empty "
        "(depth <= 3), mini reopened read-write after a clean close (depth 1), plus large arrays (several chunks, "
        "compressed and uncompressed) created, appended across chunk boundaries and resized; for every history two "
        "crash points: after flush() and after close(); the writer is a forked child that SIGKILLs itself right after "
        "the call returns; non-trivial = history whose last operation changed the file; distinct by construction")
ASSUMPTIONS = [
    "SIGKILL keeps the OS page cache: power loss and torn sectors are not modelled (the statement speaks of a process kill)",
    "the child records its walk right after flush() returned (before close() for the close point); reading does not modify the file",
    "the harness clock is advanced between the last operation and the flush/close",
]
CHUNK = 4
WALL_CAP = {"quick": 900, "thorough": 7200}
THIN = {"thin": True, "names": ["sig"], "nsecs": 1, "narr": 1, "nsrc": 1}
BIG = [
    ["big", "create", False], ["big", "create", True], ["big", "create+append", False], ["big", "create+append", True],
    ["big", "create+append+append", True], ["big", "create+shrink+append", True], ["big", "text+append", False],
    ["big", "frame+append_rows", False],
    ["big", "many-appends", False], ["big", "many-appends", True], ["big", "frame-many-appends", False], ["big", "property-many-values", False],
]


def BOUNDS(tier):
    return {"seeds": {"rich": 1, "mini": 1 if tier == "quick" else 2, "empty": 3, "mini-reopened": 1}, "crash_points": ["flush", "close"],
            "big_arrays": len(BIG),
            "configurations": ["default", "file compression DeflateNormal", "file compression No", "automatic timestamps off at open",
                               "automatic timestamps toggled off later", "closed and reopened read-write", "a second (read-only) handle open in the writer"]}


def cases(tier):
    out = []

    def add(seed, hists, pre=None):
        for h in hists:
            if h[-1][0] == "reopen":
                continue
            for point in ("flush", "close"):
                out.append({"seed": seed, "ops": h, "point": point, "pre": pre})
    add("rich", explorer.enumerate_histories("rich", 1, {}))
    add("mini", explorer.enumerate_histories("mini", 1, {}))
    add("mini", explorer.enumerate_histories("mini", 1, {}), pre="closed-and-reopened-rw")
    add("empty", explorer.enumerate_histories("empty", 3, {}))
    if tier == "thorough":
        add("mini", [h for h in explorer.enumerate_histories("mini", 2, THIN) if len(h) == 2])
        add("light", explorer.enumerate_histories("light", 1, {}))
    for b in BIG:
        for point in ("flush", "close"):
            for seed in ("empty", "mini"):
                out.append({"seed": seed, "ops": [b], "point": point, "pre": None})
                out.append({"seed": seed, "ops": [b], "point": point, "pre": None, "fcomp": True})
    # files created with file-level compression DeflateNormal (also reopened after a clean close)
    for h in explorer.enumerate_histories("mini", 1, THIN):
        if h[-1][0] != "reopen":
            for point in ("flush", "close"):
                out.append({"seed": "mini", "ops": h, "point": point, "pre": None, "fcomp": True})
                out.append({"seed": "mini", "ops": h, "point": point, "pre": "closed-and-reopened-rw", "fcomp": True})
    # every open-time / session configuration the library offers: automatic timestamps switched off when the
    # file is opened, or toggled off after the seed was built; file compression No
    for cfgname in ("auto-ts-off-at-open", "auto-ts-toggled-off", "file-compression-no", "second-handle-open"):
        for h in explorer.enumerate_histories("mini", 1, THIN):
            if h[-1][0] != "reopen":
                for point in ("flush", "close"):
                    out.append({"seed": "mini", "ops": h, "point": point, "pre": None, "cfg": cfgname})
        for b in BIG[:4]:
            for point in ("flush", "close"):
                out.append({"seed": "empty", "ops": [b], "point": point, "pre": None, "cfg": cfgname})
    return out


def big_op(f, op):
    kind, compressed = op[1], op[2]
    b = f.blocks[0] if len(f.blocks) else f.create_block("bigblock", "t")
    comp = nix.Compression.DeflateNormal if compressed else nix.Compression.No
    if kind == "many-appends":
        # two dozen appends in a row without any read in between; the array grows past 1024 rows on the way
        da = b.create_data_array("grown", "t", data=np.arange(20.0).reshape(10, 2), compression=comp)
        for i in range(24):
            da.append(np.full((55, 2), float(i)), axis=0)
        return
    if kind == "frame-many-appends":
        df = b.create_data_frame("grownframe", "t", col_dict=dict([("a", np.int64), ("s", str)]), data=[(0, "r")])
        for i in range(24):
            df.append_rows([(i * 100 + j, "x%d" % j) for j in range(50)])
        return
    if kind == "property-many-values":
        sec = f.sections[0] if len(f.sections) else f.create_section("bigsec", "t")
        p_ = sec.create_property("grownprop", [0])
        for i in range(24):
            p_.extend_values(list(range(i * 50, i * 50 + 50)))
        return
    steps = kind.split("+")
    da = None
    for st in steps:
        if st == "create":
            da = b.create_data_array("big", "t", data=np.arange(40000, dtype=np.float64).reshape(200, 200), compression=comp)
        elif st == "text":
            da = b.create_data_array("bigtext", "t", data=np.array(["s%d" % i for i in range(3000)], dtype=object), dtype=nix.DataType.String)
        elif st == "frame":
            da = b.create_data_frame("bigframe", "t", col_dict=dict([("a", np.int64), ("s", str)]), data=[(i, "r%d" % i) for i in range(500)])
        elif st == "append":
            if da.name == "bigtext":
                da.append(np.array(["t%d" % i for i in range(2500)], dtype=object))
            else:
                da.append(np.full((150, 200), 7.5), axis=0)
        elif st == "append_rows":
            da.append_rows([(i, "x%d" % i) for i in range(700)])
        elif st == "shrink":
            da.data_extent = (50, 200)


def child(path, side, case):
    """runs in a forked process; never returns"""
    try:
        if case.get("fcomp"):
            # file-level compression setting chosen when the file is created
            env.install_seams()
            env.reset_execution()
            s = O.Session.__new__(O.Session)
            s.path, s.auto_ts, s.caches, s.mode = path, True, {"A": {}, "B": {}}, "rw"
            s.f = nix.File.open(path, nix.FileMode.Overwrite, compression=nix.Compression.DeflateNormal)
            if explorer.SEEDS[case["seed"]] is not None:
                explorer.SEEDS[case["seed"]](s.f)
        elif case.get("cfg"):
            env.install_seams()
            env.reset_execution()
            cfg = case["cfg"]
            s = O.Session.__new__(O.Session)
            s.path, s.auto_ts, s.caches, s.mode, s.twin = path, cfg != "auto-ts-off-at-open", {"A": {}, "B": {}}, "rw", None
            kw = {}
            if cfg == "auto-ts-off-at-open":
                kw["auto_update_timestamps"] = False
            if cfg == "file-compression-no":
                kw["compression"] = nix.Compression.No
            s.f = nix.File.open(path, nix.FileMode.Overwrite, **kw)
            if explorer.SEEDS[case["seed"]] is not None:
                explorer.SEEDS[case["seed"]](s.f)
            if cfg == "auto-ts-toggled-off":
                s.f.auto_update_timestamps = False
            if cfg == "second-handle-open":
                # the same file is open a second time in the writer process (read-only handle, never used)
                s.keep = nix.File.open(path, nix.FileMode.ReadOnly)
        else:
            s = O.Session(path=path, build=explorer.SEEDS[case["seed"]])
        if case.get("pre") == "closed-and-reopened-rw":
            s.reopen("rw")
        m = explorer.seed_model(case["seed"])
        status = "ok"
        for op in case["ops"]:
            try:
                if op[0] == "big":
                    big_op(s.f, op)
                else:
                    O.impl_apply(s, op)
            except Exception as e:  # noqa
                status = "op-raised:" + type(e).__name__
        env.CLOCK.advance(5)       # the clock moves on between the last operation and the flush/close
        if case["point"] == "flush":
            s.f.flush()
            # the state at the moment flush() returned (reading does not write)
            w = walker.walk(s.f, core=True)
            with open(side, "w") as fh:
                json.dump({"status": status, "walk": w}, fh, default=repr)
        else:
            w = walker.walk(s.f, core=True)
            with open(side, "w") as fh:
                json.dump({"status": status, "walk": w}, fh, default=repr)
            s.f.close()
    except BaseException as e:  # noqa
        try:
            with open(side + ".err", "w") as fh:
                fh.write("%s: %s" % (type(e).__name__, e))
        finally:
            os.kill(os.getpid(), signal.SIGKILL)
    os.kill(os.getpid(), signal.SIGKILL)


def run_case(case):
    r = R()
    r.evals = 1
    path = env.fresh_path("c17_")
    side = path + ".walk.json"
    env.install_seams()
    pid = os.fork()
    if pid == 0:
        child(path, side, case)
        os._exit(99)
    _, status = os.waitpid(pid, 0)
    try:
        if not (os.WIFSIGNALED(status) and os.WTERMSIG(status) == signal.SIGKILL):
            raise RuntimeError("writer child ended unexpectedly (status %r)" % status)
        if os.path.exists(side + ".err"):
            raise RuntimeError("writer child failed: " + open(side + ".err").read())
        with open(side) as fh:
            rec = json.load(fh)
        exp = rec["walk"]
        opk = explorer.opsig(case["ops"][-1]) if case["ops"][-1][0] != "big" else "big:%s:%s" % (case["ops"][-1][1], "gzip" if case["ops"][-1][2] else "raw")
        if rec["status"] == "ok":
            r.nontrivial = 1
        r.outcomes.add("%s:%s%s%s" % (case["point"], rec["status"].split(":")[0], ":file-deflate" if case.get("fcomp") else "",
                                      ":" + case["cfg"] if case.get("cfg") else ""))
        for mode, label in ((nix.FileMode.ReadOnly, "ro"), (nix.FileMode.ReadWrite, "rw")):
            r.transitions += 1
            try:
                f = nix.File.open(path, mode)
            except Exception as e:  # noqa
                r.viol("C17|%s|%s|%s|cannot-open-%s-%s" % (case["seed"], opk, case["point"], label, type(e).__name__),
                       "after %s + SIGKILL the file cannot be opened %s: %s: %s" % (case["point"], label, type(e).__name__, str(e)[:120]), {})
                return r
            try:
                got = json.loads(json.dumps(walker.walk(f, core=True), default=repr))
            except Exception as e:  # noqa
                r.viol("C17|%s|%s|%s|cannot-read-%s-%s" % (case["seed"], opk, case["point"], label, type(e).__name__),
                       "after %s + SIGKILL reading the file (%s) raises %s: %s" % (case["point"], label, type(e).__name__, str(e)[:120]), {})
                return r
            finally:
                env.safe_close(f)
            if got != exp:
                keys = walker.diff_keys(exp, got)
                r.viol("C17|%s|%s|%s|state-lost-%s:%s" % (case["seed"], opk, case["point"], label, ",".join(keys[:2])[:100]),
                       "after %s + SIGKILL the file (%s) differs from the state at the %s point: %s" % (
                           case["point"], label, case["point"], "; ".join(walker.diff(exp, got, limit=3))), {})
                return r
        r.traces = 1
        r.states.add(jhash(exp))
        return r
    finally:
        env.rm(path)
        env.rm(side)
        env.rm(side + ".err")
