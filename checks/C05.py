"""C05 - links are aliases of the original entity, never copies, and stay in their block.

E1/E2: (a) full path x path matrix: every mutation of a per-kind menu applied
through every access path of a linked entity and read through every other
path, in session and after reopen; (b) every link list x every candidate
class for append/extend; (c) every linked-vector index specification of a
dimension link for ranks 1-3, link <-> explicit ticks replacement, set
dimension links, data frame column links, read-through and write-through of
unit and label.
"""
import itertools

import numpy as np

from mc import env
from mc import seeds, walker
from mc.core import R
import nixio as nix
from nixio.exceptions import IncompatibleDimensions

LEVEL = "model_checking"
RULE = ("(a) rich seed: for every entity reachable through >= 2 paths (container, group lists of two groups, tag and "
        "multi-tag references, positions, extents, feature data, source lists, metadata links from two blocks) every "
        "mutation of the kind's menu through path p, then reading through every path q (full p x q matrix), in session "
        "and after reopen; (b) 13 link lists x 8 candidate classes (same block, foreign block different name, foreign "
        "block same name, wrong kind, non-entity, id string, nested source depth 1-3, source of another block) for "
        "append and extend; (c) ranks 1-3: every index specification with -1 at each axis x every in-range index at "
        "the others, every malformed specification, ticks<->link replacement in both orders, set-dimension and data "
        "frame links, unit/label read- and write-through; non-trivial = (p, q, mutation) with p != q; distinct by "
        "construction")
ASSUMPTIONS = [
    "only link lists are required to refuse foreign-block entities (positions/extents/feature data: as documented)",
    "small-scope: the link topology of the rich seed (one target linked from up to 5 places, two blocks with equal names)",
]
CHUNK = 1
WALL_CAP = {"quick": 900, "thorough": 7200}


# ------------------------------------------------------------------ (a) paths

def path_table(f):
    """target key -> list of (path label, getter(f))"""
    T = {}

    def add(key, label, getter):
        T.setdefault(key, []).append((label, getter))
    for bn in ("blk", "Ablk"):
        B = lambda f, bn=bn: f.blocks[bn]
        add(("array", bn, "sig"), "block.data_arrays", lambda f, B=B: B(f).data_arrays["sig"])
        add(("array", bn, "sig"), "group.data_arrays", lambda f, B=B: B(f).groups["grp"].data_arrays["sig"])
        add(("array", bn, "sig"), "tag.references", lambda f, B=B: B(f).tags["tag"].references[0])
        add(("tag", bn, "tag"), "block.tags", lambda f, B=B: B(f).tags["tag"])
        add(("tag", bn, "tag"), "group.tags", lambda f, B=B: B(f).groups["grp"].tags[0])
        add(("source", bn, "src/src"), "source.sources", lambda f, B=B: B(f).sources["src"].sources["src"])
        add(("source", bn, "src/src"), "tag.sources", lambda f, B=B: B(f).tags["tag"].sources[0])
        add(("source", bn, "src/src"), "block.find_sources", lambda f, B=B: [s_ for s_ in B(f).find_sources() if s_.name == "src"][1])
    B = lambda f: f.blocks["blk"]
    add(("array", "blk", "sig"), "group2.data_arrays", lambda f: B(f).groups["Agrp"].data_arrays[0])
    add(("array", "blk", "sig"), "multi_tag.references", lambda f: B(f).multi_tags["mtag"].references["sig"])
    add(("array", "blk", "sig"), "group.by-id", lambda f: B(f).groups["grp"].data_arrays[B(f).data_arrays["sig"].id])
    add(("array", "blk", "apos"), "block.data_arrays", lambda f: B(f).data_arrays["apos"])
    add(("array", "blk", "apos"), "multi_tag.positions", lambda f: B(f).multi_tags["mtag"].positions)
    add(("array", "blk", "Zext"), "block.data_arrays", lambda f: B(f).data_arrays["Zext"])
    add(("array", "blk", "Zext"), "multi_tag.extents", lambda f: B(f).multi_tags["mtag"].extents)
    add(("array", "blk", "feat"), "block.data_arrays", lambda f: B(f).data_arrays["feat"])
    add(("array", "blk", "feat"), "tag.feature.data", lambda f: B(f).tags["tag"].features[0].data)
    add(("array", "blk", "feat"), "multi_tag.feature.data", lambda f: B(f).multi_tags["mtag"].features[0].data)
    add(("array", "blk", "evt"), "block.data_arrays", lambda f: B(f).data_arrays["evt"])
    add(("array", "blk", "evt"), "group.data_arrays", lambda f: B(f).groups["grp"].data_arrays["evt"])
    add(("array", "blk", "evt"), "tag.feature.data", lambda f: B(f).tags["tag"].features[1].data)
    add(("frame", "blk", "frame"), "block.data_frames", lambda f: B(f).data_frames["frame"])
    add(("frame", "blk", "frame"), "group.data_frames", lambda f: B(f).groups["grp"].data_frames[0])
    add(("frame", "blk", "frame"), "multi_tag.feature.data", lambda f: B(f).multi_tags["mtag"].features[1].data)
    add(("mtag", "blk", "mtag"), "block.multi_tags", lambda f: B(f).multi_tags["mtag"])
    add(("mtag", "blk", "mtag"), "group.multi_tags", lambda f: B(f).groups["grp"].multi_tags["mtag"])
    add(("source", "blk", "src"), "block.sources", lambda f: B(f).sources["src"])
    add(("source", "blk", "src"), "array.sources", lambda f: B(f).data_arrays["sig"].sources[0])
    add(("source", "blk", "other/src"), "source.sources", lambda f: B(f).sources["other"].sources["src"])
    add(("source", "blk", "other/src"), "array.sources", lambda f: B(f).data_arrays["sig"].sources[1])
    add(("source", "blk", "src/other"), "source.sources", lambda f: B(f).sources["src"].sources["other"])
    add(("source", "blk", "src/other"), "group.sources", lambda f: B(f).groups["grp"].sources[0])
    add(("source", "blk", "other"), "block.sources", lambda f: B(f).sources["other"])
    add(("source", "blk", "other"), "multi_tag.sources", lambda f: B(f).multi_tags["mtag"].sources[0])
    add(("section", "-", "sec"), "file.sections", lambda f: f.sections["sec"])
    add(("section", "-", "sec"), "block.metadata", lambda f: f.blocks["blk"].metadata)
    add(("section", "-", "sec"), "other-block.tag.metadata", lambda f: f.blocks["Ablk"].tags["tag"].metadata)
    add(("section", "-", "sec/sec"), "section.sections", lambda f: f.sections["sec"].sections["sec"])
    add(("section", "-", "sec/sec"), "array.metadata", lambda f: f.blocks["blk"].data_arrays["sig"].metadata)
    add(("section", "-", "sec/sec"), "tag.metadata", lambda f: f.blocks["blk"].tags["tag"].metadata)
    add(("section", "-", "other/sec"), "section.sections", lambda f: f.sections["other"].sections["sec"])
    add(("section", "-", "other/sec"), "source.metadata", lambda f: f.blocks["blk"].sources["src"].metadata)
    add(("section", "-", "other/sec"), "other-block.array.metadata", lambda f: f.blocks["Ablk"].data_arrays["sig"].metadata)
    add(("section", "-", "other"), "file.sections", lambda f: f.sections["other"])
    add(("section", "-", "other"), "group.metadata", lambda f: f.blocks["blk"].groups["grp"].metadata)
    return T


MENU = {
    "array": [("label", lambda e: setattr(e, "label", "via-path")), ("unit", lambda e: setattr(e, "unit", "kV")),
              ("definition", lambda e: setattr(e, "definition", "déf")), ("type", lambda e: setattr(e, "type", "newtype")),
              ("data-element", lambda e: e.__setitem__(tuple([0] * len(e.shape)), 42)),
              ("append-dimension", lambda e: e.append_set_dimension(["q"])), ("origin", lambda e: setattr(e, "expansion_origin", 1.5)),
              ("dimension-label", lambda e: setattr(e.dimensions[0], "label", "dl")),
              ("link-source", lambda e: e.sources.append([s_ for s_ in e._parent.find_sources() if s_ not in e.sources][0]))],
    "tag": [("position", lambda e: setattr(e, "position", [9.0, 8.0])), ("definition", lambda e: setattr(e, "definition", "d")),
            ("units", lambda e: setattr(e, "units", ["s", "s"])), ("type", lambda e: setattr(e, "type", "nt"))],
    "mtag": [("definition", lambda e: setattr(e, "definition", "d")), ("units", lambda e: setattr(e, "units", ["s", "s"]))],
    "frame": [("definition", lambda e: setattr(e, "definition", "d")), ("write-cell", lambda e: e.write_cell(77, position=[0, 0])),
              ("append-row", lambda e: e.append_rows([(9, "z", 9.5)]))],
    "source": [("definition", lambda e: setattr(e, "definition", "d")), ("type", lambda e: setattr(e, "type", "nt")),
               ("create-child", lambda e: e.create_source("child-via-path", "t"))],
    "section": [("repository", lambda e: setattr(e, "repository", "r")), ("definition", lambda e: setattr(e, "definition", "d")),
                ("create-property", lambda e: e.create_property("via-path", [1])), ("type", lambda e: setattr(e, "type", "nt"))],
}


def read(e):
    walker.CORE[0] = True
    try:
        return walker.walk_obj(e)
    finally:
        walker.CORE[0] = False


def run_paths(case, r):
    key = tuple(case["target"])
    pi, mi = case["p"], case["m"]
    env.install_seams()
    env.reset_execution()
    path = env.fresh_path("c05_")
    f = nix.File.open(path, nix.FileMode.Overwrite)
    try:
        seeds.build_rich(f)
        paths = path_table(f)[key]
        mname, mfn = MENU[key[0]][mi]
        # all paths agree before
        views = [(lbl, g(f)) for lbl, g in paths]
        base = read(views[0][1])
        for lbl, e in views:
            r.evals += 1
            if read(e) != base:
                r.viol("C05|%s|paths-disagree-before|%s" % (key[0], lbl), "%s reached via %s differs from the container's entity" % (key, lbl), {})
                return
        plabel, pent = views[pi]
        try:
            mfn(pent)
        except Exception as e:  # noqa
            r.viol("C05|%s|mutation-through-path-raises|%s|%s|%s" % (key[0], plabel, mname, type(e).__name__),
                   "%s via %s raises %s: %s" % (mname, plabel, type(e).__name__, str(e)[:100]), {})
            return
        r.transitions += 1
        after = read(pent)
        if after == base:
            r.viol("C05|%s|mutation-without-effect|%s|%s" % (key[0], plabel, mname), "%s via %s changed nothing" % (mname, plabel), {})
            return
        for stage in ("in-session", "held-handles", "after-reopen"):
            if stage == "in-session":
                vs = [(lbl, g(f)) for lbl, g in paths]
            elif stage == "held-handles":
                vs = views
            else:
                f.close()
                f = nix.File.open(path, nix.FileMode.ReadOnly)
                vs = [(lbl, g(f)) for lbl, g in path_table(f)[key]]
            for qi, (lbl, e) in enumerate(vs):
                r.evals += 1
                if qi != pi:
                    r.nontrivial += 1
                got = read(e)
                r.outcomes.add("%s:%s" % (key[0], stage))
                if got != after:
                    keys = walker.diff_keys(after, got)
                    r.viol("C05|%s|%s|change-through-%s-not-visible-through-%s|%s:%s" % (key[0], stage, plabel, lbl, mname, ",".join(keys[:2])[:80]),
                           "%s %s: %s applied through %s is not what %s shows (%s): %s" % (
                               key[0], key[2], mname, plabel, lbl, stage, "; ".join(walker.diff(after, got, limit=3))), {})
                    return
    finally:
        env.safe_close(f)
        env.rm(path)


# ------------------------------------------------------------------ (b) link acceptance

def run_accept(case, r):
    env.install_seams()
    env.reset_execution()
    path = env.fresh_path("c05b_")
    f = nix.File.open(path, nix.FileMode.Overwrite)
    try:
        seeds.build_rich(f)
        b, o = f.blocks["blk"], f.blocks["Ablk"]
        # a foreign array with a name that does not exist locally, deep sources
        o.create_data_array("only-in-other", "t", data=np.array([1.0]))
        o.create_tag("only-in-other", "t", [0.0])
        o.create_multi_tag("mtag", "t", o.data_arrays["sig"])
        o.create_multi_tag("only-in-other", "t", o.data_arrays["sig"])
        deep = b.sources["other"].sources["src"].create_source("deep3", "t")
        o.sources["src"].sources["src"].create_source("deep3", "t")
        b.create_data_array("fresh", "t", data=np.array([1.0]))
        b.create_tag("fresh", "t", [0.0])
        b.create_multi_tag("fresh", "t", b.data_arrays["fresh"])
        b.create_source("fresh", "t")
        if len(b.data_frames):
            b.create_data_frame("fresh", "t", col_dict={"c": int})
            o.create_data_frame("frame", "t", col_dict={"c": int})
        # copies that keep the id of a local entity but live in the other block under another name
        o.create_data_array(name="sig-copy-in-other", copy_from=b.data_arrays["sig"])
        o.create_tag(name="tag-copy-in-other", copy_from=b.tags["tag"])
        o.create_multi_tag(name="mtag-copy-in-other", copy_from=b.multi_tags["mtag"])
        if len(b.data_frames):
            o.create_data_frame(name="frame-copy-in-other", copy_from=b.data_frames["frame"])
        # blocks whose names are related by prefix to the local block's name ("blk"): membership must be
        # decided by identity, never by comparing names or HDF5 paths textually
        px = {}
        for tagname, bname in (("foreign-block-name-extends-local", "blk2"), ("foreign-block-name-prefix-of-local", "bl")):
            pb = seeds.build_light_block(f, bname)
            pb.create_multi_tag("mtag", "t", pb.data_arrays["sig"])
            if len(b.data_frames):
                pb.create_data_frame("frame", "t", col_dict={"c": int})
            px[tagname] = pb
        g, t, mt, da = b.groups["grp"], b.tags["tag"], b.multi_tags["mtag"], b.data_arrays["sig"]
        lists = {
            "group.data_arrays": (g.data_arrays, "array"), "group.tags": (g.tags, "tag"), "group.multi_tags": (g.multi_tags, "mtag"),
            "group.data_frames": (g.data_frames, "frame"), "group.sources": (g.sources, "source"),
            "tag.references": (t.references, "array"), "tag.sources": (t.sources, "source"),
            "multi_tag.references": (mt.references, "array"), "multi_tag.sources": (mt.sources, "source"),
            "data_array.sources": (da.sources, "source"),
        }
        pool = {
            "array": {"same-block": b.data_arrays["fresh"], "foreign-other-name": o.data_arrays["only-in-other"], "foreign-same-name": o.data_arrays["sig"], "foreign-kept-id-copy": o.data_arrays["sig-copy-in-other"]},
            "tag": {"same-block": b.tags["fresh"], "foreign-other-name": o.tags["only-in-other"], "foreign-same-name": o.tags["tag"], "foreign-kept-id-copy": o.tags["tag-copy-in-other"]},
            "mtag": {"same-block": b.multi_tags["fresh"], "foreign-other-name": o.multi_tags["only-in-other"], "foreign-same-name": o.multi_tags["mtag"], "foreign-kept-id-copy": o.multi_tags["mtag-copy-in-other"]},
            "frame": {"same-block": b.data_frames["fresh"], "foreign-same-name": o.data_frames["frame"], "foreign-kept-id-copy": o.data_frames["frame-copy-in-other"]} if len(b.data_frames) else {},
            "source": {"same-block": b.sources["fresh"], "nested-depth2": b.sources["src"].sources["other"], "nested-depth3": deep,
                       "foreign-same-name": o.sources["src"], "foreign-nested-same-name": o.sources["src"].sources["src"],
                       "foreign-deep": o.sources["src"].sources["src"].sources["deep3"]},
        }
        for tagname, pb in px.items():
            pool["array"][tagname] = pb.data_arrays["sig"]
            pool["tag"][tagname] = pb.tags["tag"]
            pool["mtag"][tagname] = pb.multi_tags["mtag"]
            if len(b.data_frames):
                pool["frame"][tagname] = pb.data_frames["frame"]
            pool["source"][tagname] = pb.sources["src"]
            pool["source"][tagname + "-nested"] = pb.sources["src"].sources["src"]
        wrong = {"array": b.tags["tag"], "tag": b.data_arrays["sig"], "mtag": b.tags["tag"], "frame": b.data_arrays["sig"], "source": b.data_arrays["sig"]}
        lname = case["list"]
        lst, kind = lists[lname]
        cands = dict(pool[kind])
        cands["wrong-kind"] = wrong[kind]
        cands["non-entity"] = 5
        cands["none"] = None
        for cname, cand in cands.items():
            for how in ("append", "extend"):
                r.evals += 1
                r.nontrivial += 1
                before = [e.id for e in lst]
                if hasattr(cand, "id") and cand.id in before and cname != "foreign-kept-id-copy":
                    continue        # re-appending a linked entity is outside the alphabet
                try:
                    if how == "append":
                        lst.append(cand)
                    else:
                        lst.extend([cand])
                    exc = None
                except Exception as e:  # noqa
                    exc = e
                after = [e.id for e in lst]
                legal = cname in ("same-block", "nested-depth2", "nested-depth3")
                r.outcomes.add("%s:%s" % (cname, "accepted" if exc is None else type(exc).__name__))
                if legal:
                    if exc is not None or after != before + [cand.id]:
                        r.viol("C05|accept|%s|%s|%s|legal-candidate-%s" % (lname, cname, how, "refused-" + type(exc).__name__ if exc else "not-appended"),
                               "%s.%s(%s) %s; list before %d, after %d members" % (lname, how, cname, "raised %r" % exc if exc else "did not append", len(before), len(after)), {})
                        return
                    del lst[cand.id]
                    # the linked entity is the original
                else:
                    if exc is None:
                        r.viol("C05|accept|%s|%s|%s|illegal-candidate-accepted" % (lname, cname, how),
                               "%s.%s(%s) was accepted (list grew from %d to %d)" % (lname, how, cname, len(before), len(after)), {})
                        return
                    if after != before:
                        r.viol("C05|accept|%s|%s|%s|refused-but-list-changed" % (lname, cname, how),
                               "%s.%s(%s) raised %s but the list changed" % (lname, how, cname, type(exc).__name__), {})
                        return
    finally:
        env.safe_close(f)
        env.rm(path)


# ------------------------------------------------------------------ (c) dimension links

def index_specs(shape):
    good, bad = [], []
    rank = len(shape)
    for ax in range(rank):
        others = [range(n) for i, n in enumerate(shape) if i != ax]
        for combo in itertools.product(*others):
            idx = list(combo)
            idx.insert(ax, -1)
            good.append(idx)
    bad.append(("no-marker", [0] * rank))
    if rank >= 2:
        bad.append(("two-markers", [-1, -1] + [0] * (rank - 2)))
        bad.append(("other-negative", [-1, -2] + [0] * (rank - 2)))
    bad.append(("too-long", [-1] + [0] * rank))
    if rank >= 2:
        bad.append(("too-short", [-1] + [0] * (rank - 2)))
    bad.append(("out-of-range", [-1] + [n for n in shape[1:]]) if rank >= 2 else ("only-negative", [-2]))
    return good, bad


def run_dimlink(case, r):
    shape = tuple(case["shape"])
    env.install_seams()
    env.reset_execution()
    path = env.fresh_path("c05c_")
    f = nix.File.open(path, nix.FileMode.Overwrite)
    try:
        b = f.create_block("b", "t")
        size = int(np.prod(shape))
        src = (np.arange(size, dtype=np.float64) * 0.5 + 1).reshape(shape)
        ticksrc = b.create_data_array("ticksrc", "t", data=src, unit="ms", label="time")
        b2 = f.create_block("b2", "t")
        twin_src = b2.create_data_array("ticksrc", "t", data=src * 100.0, unit="kV", label="twin")
        good, bad = index_specs(shape)
        k = 0
        for idx in good:
            k += 1
            vec = src[tuple(slice(None) if i == -1 else i for i in idx)]
            da = b.create_data_array("d%d" % k, "t", data=np.zeros(len(vec)))
            for order in ("link-after-ticks", "link-first"):
                r.evals += 1
                r.nontrivial += 1
                dim = da.append_range_dimension([float(i) for i in range(len(vec))] if order == "link-after-ticks" else None)
                dim.link_data_array(ticksrc, idx)
                d2 = da.dimensions[len(da.dimensions) - 1]
                cls = "rank%d|%s" % (len(shape), order)
                if not d2.has_link or list(d2.ticks) != vec.tolist():
                    r.viol("C05|dimlink|%s|ticks-are-not-the-configured-vector" % cls,
                           "index %r of shape %s: ticks %r, expected %r (has_link=%r)" % (idx, shape, list(d2.ticks), vec.tolist(), d2.has_link), {})
                    return
                if d2.unit != "ms" or d2.label != "time":
                    r.viol("C05|dimlink|%s|unit-label-not-from-array" % cls, "unit/label %r/%r" % (d2.unit, d2.label), {})
                    return
                # current values, not a snapshot
                pos = tuple(0 if i == -1 else i for i in idx)
                old = float(np.asarray(ticksrc[pos]).ravel()[0])
                ticksrc[pos] = old - 100.0
                vec2 = vec.copy()
                vec2[0] = old - 100.0
                if list(d2.ticks) != vec2.tolist():
                    r.viol("C05|dimlink|%s|ticks-are-a-snapshot" % cls, "after changing the array the ticks are %r, expected %r" % (list(d2.ticks), vec2.tolist()), {})
                    return
                ticksrc[pos] = old
                # write-through of unit and label
                d2.unit = "s"
                d2.label = "t2"
                if ticksrc.unit != "s" or ticksrc.label != "t2":
                    r.viol("C05|dimlink|%s|no-write-through" % cls, "setting unit/label on the linked dimension left the array at %r/%r" % (ticksrc.unit, ticksrc.label), {})
                    return
                ticksrc.unit = "ms"
                ticksrc.label = "time"
                if d2.unit != "ms" or d2.label != "time":
                    r.viol("C05|dimlink|%s|no-read-through" % cls, "array unit/label change not visible through the dimension", {})
                    return
            # re-linking through another handle of the same dimension: every handle follows
            r.evals += 1
            r.nontrivial += 1
            other_src = b.create_data_array("other%d" % k, "t", data=src * 10.0, unit="s", label="other")
            held = da.dimensions[len(da.dimensions) - 1]
            _ = (list(held.ticks), held.unit, held.label)          # the held handle has read through the old link
            via_group_path = b.data_arrays[da.name].dimensions[len(da.dimensions) - 1]
            via_group_path.link_data_array(other_src, idx)
            vec_o = (src * 10.0)[tuple(slice(None) if i == -1 else i for i in idx)]
            if list(held.ticks) != vec_o.tolist() or held.unit != "s" or held.label != "other":
                r.viol("C05|dimlink|rank%d|held-handle-follows-old-link" % len(shape),
                       "after re-linking through another handle the held dimension reports ticks %r unit %r label %r (new array: %r s other)" % (
                           list(held.ticks), held.unit, held.label, vec_o.tolist()), {})
                return
            held.unit = "ks"
            if other_src.unit != "ks" or ticksrc.unit != "ms":
                r.viol("C05|dimlink|rank%d|held-handle-writes-to-old-array" % len(shape),
                       "unit written through the held handle landed in the wrong array (new %r, old %r)" % (other_src.unit, ticksrc.unit), {})
                return
            # re-linking to an array of the SAME NAME AND TYPE in another block (a link is an alias of one
            # particular entity, identified by what it is, not by what it is called)
            r.evals += 1
            r.nontrivial += 1
            d2 = da.dimensions[len(da.dimensions) - 1]
            d2.link_data_array(ticksrc, idx)
            d2.link_data_array(twin_src, idx)
            vec_t = (src * 100.0)[tuple(slice(None) if i == -1 else i for i in idx)]
            d2 = da.dimensions[len(da.dimensions) - 1]
            if list(d2.ticks) != vec_t.tolist() or d2.unit != "kV" or d2.label != "twin":
                r.viol("C05|dimlink|rank%d|relink-to-same-name-in-other-block-keeps-old-target" % len(shape),
                       "linked to ticksrc, then re-linked to the array of the same name and type in another block: ticks %r unit %r "
                       "label %r (expected %r kV twin)" % (list(d2.ticks), d2.unit, d2.label, vec_t.tolist()), {})
                return
            d2.label = "twin2"
            if twin_src.label != "twin2" or ticksrc.label != "time":
                r.viol("C05|dimlink|rank%d|relink-to-same-name-in-other-block-writes-to-old-target" % len(shape),
                       "label written through the dimension landed in the wrong array (%r / %r)" % (twin_src.label, ticksrc.label), {})
                return
            twin_src.label = "twin"
            # explicit ticks replace the link
            r.evals += 1
            d2.ticks = [1.0, 2.0]
            d3 = da.dimensions[len(da.dimensions) - 1]
            if d3.has_link or list(d3.ticks) != [1.0, 2.0]:
                r.viol("C05|dimlink|rank%d|ticks-do-not-replace-link" % len(shape), "after setting ticks: has_link=%r ticks=%r" % (d3.has_link, list(d3.ticks)), {})
                return
            if ticksrc.unit != "ms" or list(np.asarray(ticksrc[:]).ravel()) != list(src.ravel()):
                r.viol("C05|dimlink|rank%d|replacing-link-changed-the-array" % len(shape), "the formerly linked array changed", {})
                return
        da = b.create_data_array("bad", "t", data=np.zeros(3))
        dim = da.append_range_dimension([0.0, 1.0, 2.0])
        for bname, idx in bad:
            r.evals += 1
            r.nontrivial += 1
            try:
                dim.link_data_array(ticksrc, idx)
                exc = None
            except Exception as e:  # noqa
                exc = e
            d2 = da.dimensions[0]
            r.outcomes.add("bad-index:%s:%s" % (bname, "accepted" if exc is None else type(exc).__name__))
            if bname == "out-of-range":
                # the statement does not require an eager range check; only 'never other data'
                if exc is None:
                    try:
                        t_ = list(d2.ticks)
                        r.viol("C05|dimlink|rank%d|out-of-range-index-yields-ticks" % len(shape), "index %r out of range gives ticks %r" % (idx, t_), {})
                    except Exception:
                        pass
                    d2.ticks = [0.0, 1.0, 2.0]
                continue
            if exc is None:
                r.viol("C05|dimlink|rank%d|malformed-index-accepted|%s" % (len(shape), bname), "link_data_array(%r) on shape %s accepted" % (idx, shape), {})
                return
            if d2.has_link or list(d2.ticks) != [0.0, 1.0, 2.0]:
                r.viol("C05|dimlink|rank%d|refused-link-changed-dimension|%s" % (len(shape), bname),
                       "refused link_data_array(%r) left has_link=%r ticks=%r" % (idx, d2.has_link, list(d2.ticks)), {})
                return
            try:
                ticksrc.append_range_dimension_using_self(idx)
            except Exception:
                pass
            if len(ticksrc.dimensions) != 0:
                r.viol("C05|dimlink|rank%d|refused-self-link-added-dimension|%s" % (len(shape), bname), "append_range_dimension_using_self(%r) left a dimension" % (idx,), {})
                return
        # reopen: links persist
        f.close()
        f = nix.File.open(path, nix.FileMode.ReadOnly)
        b = f.blocks["b"]
        r.evals += 1
        r.outcomes.add("reopened")
    finally:
        env.safe_close(f)
        env.rm(path)


def run_setlink(case, r):
    env.install_seams()
    env.reset_execution()
    path = env.fresh_path("c05d_")
    f = nix.File.open(path, nix.FileMode.Overwrite)
    try:
        b = f.create_block("b", "t")
        labels = b.create_data_array("labels", "t", data=np.array(["x", "ÿ", "z"], dtype=object), dtype=nix.DataType.String)
        da = b.create_data_array("d", "t", data=np.zeros((3, 2)))
        sd = da.append_set_dimension()
        sd.link_data_array(labels, [-1])
        r.evals += 3
        r.nontrivial += 3
        d0 = da.dimensions[0]
        if list(d0.labels) != ["x", "ÿ", "z"] or not d0.has_link:
            r.viol("C05|setlink|labels-not-from-array", "linked set dimension labels %r" % (list(d0.labels),), {})
            return
        labels[1] = "changed"
        if list(d0.labels) != ["x", "changed", "z"]:
            r.viol("C05|setlink|labels-are-a-snapshot", "labels %r after changing the array" % (list(d0.labels),), {})
            return
        try:
            d0.labels = ["a", "b", "c"]
            r.viol("C05|setlink|labels-of-linked-dimension-set", "setting labels on a linked set dimension was accepted", {})
        except RuntimeError:
            pass
        if len(b.data_frames) == 0:
            df = b.create_data_frame("frame", "t", col_dict=dict([("name", str), ("t", np.float64)]), data=[("a", 0.5), ("b", 1.5), ("c", 4.0)])
            df.units = [None, "ms"]
            rd = da.append_range_dimension()
            # the second axis has 2 entries; the link is still legal (validation is C14's business)
            rd.link_data_frame(df, 1)
            d1 = da.dimensions[1]
            r.evals += 2
            if [float(x) for x in d1.ticks] != [0.5, 1.5, 4.0] or d1.unit != "ms" or d1.label != "t":
                r.viol("C05|framelink|ticks-unit-label-not-from-column", "ticks %r unit %r label %r" % (list(d1.ticks), d1.unit, d1.label), {})
                return
            df.write_cell(2.5, position=[1, 1])
            if [float(x) for x in d1.ticks] != [0.5, 2.5, 4.0]:
                r.viol("C05|framelink|ticks-are-a-snapshot", "ticks %r after changing the column" % (list(d1.ticks),), {})
                return
            # unit written through the dimension: refused, or it is the unit of that very column afterwards
            r.evals += 1
            try:
                d1.unit = "s"
                uexc = None
            except Exception as e:  # noqa
                uexc = e
            units_now = [None if u in (None, "") else u for u in df.units]
            if uexc is None and (units_now != [None, "s"] or da.dimensions[1].unit != "s"):
                r.viol("C05|framelink|unit-write-through-lost-or-misplaced",
                       "unit 's' set through the dimension linked to column 1: frame units %r, dimension unit %r" % (list(df.units), da.dimensions[1].unit), {})
                return
            if uexc is not None and units_now != [None, "ms"]:
                r.viol("C05|framelink|refused-unit-changed-frame", "refused unit change left frame units %r" % (list(df.units),), {})
                return
            df.units = [None, "ms"]
            sd2 = b.create_data_array("d2", "t", data=np.zeros(3)).append_set_dimension()
            sd2.link_data_frame(df, 0)
            if list(b.data_arrays["d2"].dimensions[0].labels) != ["a", "b", "c"]:
                r.viol("C05|framelink|labels-not-from-column", "labels %r" % (list(b.data_arrays["d2"].dimensions[0].labels),), {})
                return
            for badidx in (-1, 2, 5):
                try:
                    rd.link_data_frame(df, badidx)
                    r.viol("C05|framelink|column-index-out-of-range-accepted", "link_data_frame(index=%d) accepted" % badidx, {})
                    return
                except Exception:
                    pass
                if [float(x) for x in da.dimensions[1].ticks] != [0.5, 2.5, 4.0]:
                    r.viol("C05|framelink|refused-link-changed-dimension", "refused column link changed the dimension", {})
                    return
        r.outcomes.add("setlink")
    finally:
        env.safe_close(f)
        env.rm(path)


def run_manydims(case, r):
    """an array of rank 11 whose range descriptors are linked to different arrays: every access path to descriptor k
    (creation handle, position, negative position, iteration, after reopening) reaches the array linked to k; and a
    link to an int64 array whose values exceed 2**53 reports exactly those values"""
    env.install_seams()
    env.reset_execution()
    path = env.fresh_path("c05f_")
    f = nix.File.open(path, nix.FileMode.Overwrite)
    try:
        b = f.create_block("b", "t")
        da = b.create_data_array("d", "t", data=np.zeros((1,) * 11))
        created = []
        for k in range(11):
            src = b.create_data_array("ticks%02d" % k, "t", data=np.array([float(100 * k + 1)]), unit="ms", label="axis%d" % k)
            dim = da.append_range_dimension()
            dim.link_data_array(src, [-1])
            created.append(dim)
        for stage in ("in-session", "after-reopen"):
            dims = da.dimensions
            views = {"position": [dims[k] for k in range(11)], "negative-position": [dims[k - 11] for k in range(11)],
                     "iteration": list(dims)}
            if stage == "in-session":
                views["creation-handle"] = created
            for vname, lst in views.items():
                r.evals += 1
                r.nontrivial += 1
                got = [(d.index, [float(x) for x in d.ticks], d.label) for d in lst]
                exp = [(k + 1, [float(100 * k + 1)], "axis%d" % k) for k in range(11)]
                if got != exp:
                    bad = [k for k in range(11) if k >= len(got) or got[k] != exp[k]]
                    r.viol("C05|manydims|%s|%s|descriptor-reaches-another-array" % (stage, vname),
                           "rank-11 array: descriptor(s) %s reached by %s report %r, expected %r" % (
                               [k + 1 for k in bad][:4], vname, [got[k] for k in bad if k < len(got)][:2], [exp[k] for k in bad][:2]), {})
                    return
            # write-through from the 10th descriptor lands in the 10th array
            dims[9].label = "changed-through-10"
            if b.data_arrays["ticks09"].label != "changed-through-10" or b.data_arrays["ticks01"].label != "axis1":
                r.viol("C05|manydims|%s|write-through-lands-elsewhere" % stage, "label set through descriptor 10 did not reach array ticks09", {})
                return
            b.data_arrays["ticks09"].label = "axis9"
            f.close()
            f = nix.File.open(path, nix.FileMode.ReadWrite)
            b = f.blocks["b"]
            da = b.data_arrays["d"]
        # integer ticks beyond 2**53: the ticks are the array's values, exactly
        r.evals += 1
        r.nontrivial += 1
        big = [2 ** 53 + 1, 2 ** 53 + 3, 2 ** 62 + 5]
        for dt in ("int64", "uint64"):
            src = b.create_data_array("bigticks-" + dt, "t", data=np.array(big, dtype=dt))
            d3 = b.create_data_array("d3-" + dt, "t", data=np.zeros(3))
            dim = d3.append_range_dimension()
            dim.link_data_array(src, [-1])
            got = [int(x) for x in d3.dimensions[0].ticks]
            if got != big:
                r.viol("C05|dimlink|%s-beyond-2^53|ticks-differ-from-the-array" % dt,
                       "ticks of a dimension linked to an %s array: %r, the array holds %r" % (dt, got, big), {})
                return
        r.outcomes.add("manydims")
    finally:
        env.safe_close(f)
        env.rm(path)


def run_relink(case, r):
    """re-pointing a link from one KIND of target to another and from one target to another of the same kind:
    dimension links frame -> other frame / frame -> array / array -> frame, feature data frame -> array / array -> frame;
    what is reached afterwards is the new original (kind, id, content), written-through changes land there"""
    env.install_seams()
    env.reset_execution()
    path = env.fresh_path("c05e_")
    f = nix.File.open(path, nix.FileMode.Overwrite)
    try:
        b = f.create_block("b", "t")
        dfA = b.create_data_frame("frameA", "t", col_dict=dict([("t", np.float64), ("n", str)]), data=[(0.5, "a"), (1.5, "b"), (4.0, "c")])
        dfA.units = ["ms", None]
        dfB = b.create_data_frame("frameB", "t", col_dict=dict([("t", np.float64), ("n", str)]), data=[(10.0, "x"), (20.0, "y"), (30.0, "z")])
        dfB.units = ["kV", None]
        arr = b.create_data_array("ticksarr", "t", data=np.array([100.0, 200.0, 300.0]), unit="A", label="arr")
        da = b.create_data_array("d", "t", data=np.zeros(3))
        dim = da.append_range_dimension()
        targets = {"frameA": (lambda d: d.link_data_frame(dfA, 0), [0.5, 1.5, 4.0], "ms", "t"),
                   "frameB": (lambda d: d.link_data_frame(dfB, 0), [10.0, 20.0, 30.0], "kV", "t"),
                   "array": (lambda d: d.link_data_array(arr, [-1]), [100.0, 200.0, 300.0], "A", "arr")}
        for first in targets:
            for second in targets:
                if first == second:
                    continue
                r.evals += 1
                r.nontrivial += 1
                d_ = da.dimensions[0]
                targets[first][0](d_)
                _ = list(da.dimensions[0].ticks)
                targets[second][0](da.dimensions[0])
                for hname, h in (("fresh-handle", da.dimensions[0]), ("held-handle", d_)):
                    got = ([float(x) for x in h.ticks], h.unit, h.label)
                    exp = (targets[second][1], targets[second][2], targets[second][3])
                    if got != exp:
                        r.viol("C05|relink-dimension|%s->%s|%s|reports-old-or-wrong-target" % (first, second, hname),
                               "dimension linked to %s then re-linked to %s reports ticks %r unit %r label %r, expected %r" % (
                                   first, second, got[0], got[1], got[2], exp), {})
                        return
        # feature data: frame <-> array, on a tag and on a multi tag
        tag = b.create_tag("tag", "t", [0.0])
        mt = b.create_multi_tag("mt", "t", b.create_data_array("pos", "t", data=np.array([0.0])))
        for owner in (tag, mt):
            for first, second in ((dfA, arr), (arr, dfA), (dfA, dfB)):
                r.evals += 1
                r.nontrivial += 1
                ft = owner.create_feature(first, nix.LinkType.Untagged)
                _ = ft.data.id
                ft.data = second
                for hname, h in (("held-handle", ft), ("fresh-handle", owner.features[len(owner.features) - 1])):
                    got = h.data
                    if type(got) is not type(second) or got.id != second.id or got.name != second.name:
                        r.viol("C05|relink-feature|%s->%s|%s|not-the-new-original" % (type(first).__name__, type(second).__name__, hname),
                               "feature data re-pointed from %s %r to %s %r yields %s %r" % (
                                   type(first).__name__, first.name, type(second).__name__, second.name, type(got).__name__, getattr(got, "name", None)), {})
                        return
                if isinstance(second, nix.DataArray):
                    owner.features[len(owner.features) - 1].data.label = "through-feature"
                    if arr.label != "through-feature":
                        r.viol("C05|relink-feature|write-through-lost", "label set through the re-pointed feature did not reach the array", {})
                        return
                    arr.label = "arr"
        f.close()
        f = nix.File.open(path, nix.FileMode.ReadOnly)
        b = f.blocks["b"]
        r.evals += 1
        k = [type(ft.data).__name__ for ft in b.tags["tag"].features]
        if k != ["DataArray", "DataFrame", "DataFrame"]:
            r.viol("C05|relink-feature|after-reopen|wrong-kinds", "feature data kinds after reopen: %r" % k, {})
        r.outcomes.add("relink")
    finally:
        env.safe_close(f)
        env.rm(path)


def run_copyrelink(case, r):
    """Copies that keep the id of their original (the default of copy_from / copy_section): a tag copied into another
    block, the referenced array copied there too, the copy of the tag re-linked to the copy of the array; a metadata
    link re-pointed from a section to its kept-id copy.  What is reached through the link afterwards is the entity that
    was linked LAST (not an equal-looking one): a change through either path shows through the other, also after reopening."""
    env.install_seams()
    env.reset_execution()
    path = env.fresh_path("c05f_")
    f = nix.File.open(path, nix.FileMode.Overwrite)
    try:
        b1 = f.create_block("b1", "t")
        a = b1.create_data_array("signal", "t", data=np.array([1.0, 2.0, 3.0]), unit="mV", label="orig")
        pos = b1.create_data_array("pos", "t", data=np.array([0.0, 1.0]))
        t = b1.create_tag("tag", "t", [0.0])
        t.references.append(a)
        t.create_feature(a, nix.LinkType.Untagged)
        mt = b1.create_multi_tag("mt", "t", pos)
        mt.references.append(a)
        g = b1.create_group("grp", "t")
        g.data_arrays.append(a)
        s = f.create_section("s", "t")
        s["p"] = 1
        a.metadata = s
        b2 = f.create_block("b2", "t")
        t2 = b2.create_tag(copy_from=t)
        mt2 = b2.create_multi_tag(copy_from=mt)
        g2 = b2.create_group("grp", "t")
        a2 = b2.create_data_array(copy_from=a)
        pos2 = b2.create_data_array(copy_from=pos)
        r.transitions += 5
        steps = [("tag.references", lambda: t2.references.append(a2), lambda ff: ff.blocks["b2"].tags["tag"].references["signal"]),
                 ("multi_tag.references", lambda: mt2.references.append(a2), lambda ff: ff.blocks["b2"].multi_tags["mt"].references["signal"]),
                 ("group.data_arrays", lambda: g2.data_arrays.append(a2), lambda ff: ff.blocks["b2"].groups["grp"].data_arrays["signal"]),
                 ("multi_tag.positions", lambda: setattr(mt2, "positions", pos2), lambda ff: ff.blocks["b2"].multi_tags["mt"].positions),
                 ("feature.data", lambda: setattr(t2.features[0], "data", a2), lambda ff: ff.blocks["b2"].tags["tag"].features[0].data)]
        marks = {}
        for i, (label, link, reach) in enumerate(steps):
            try:
                link()
            except Exception as e:  # noqa
                r.bump("copyrelink-refused:" + label)
                continue
            r.transitions += 1
            r.evals += 1
            r.nontrivial += 1
            home = pos2 if label.endswith("positions") else a2
            mark = "via-home-%d" % i
            home.label = mark
            marks[label] = (reach, home.name, mark)
            got = reach(f).label
            if got != mark:
                r.viol("C05|copy-relink|%s|in-session|link-reaches-another-object" % label,
                       "after %s was re-linked to the block's own kept-id copy, a label set on that copy reads %r through the link" % (label, got), {})
                return
            reach(f).label = "via-link-%d" % i
            if home.label != "via-link-%d" % i:
                r.viol("C05|copy-relink|%s|in-session|write-through-lost" % label,
                       "a label set through %s did not reach the entity that was linked" % label, {})
                return
            home.label = mark
        # the original block is untouched by all of this
        if a.label != "orig" or f.blocks["b1"].tags["tag"].references["signal"].label != "orig":
            r.viol("C05|copy-relink|original-changed", "changing the copies changed the original array", {})
            return
        # metadata: s -> kept-id copy of s below another section
        other = f.create_section("other", "t")
        s_copy = other.copy_section(s)
        a2.metadata = s
        a2.metadata = s_copy
        r.transitions += 3
        r.evals += 1
        r.nontrivial += 1
        s_copy["q"] = 2
        if "q" not in a2.metadata or "q" in s:
            r.viol("C05|copy-relink|metadata|in-session|link-reaches-another-object",
                   "metadata re-pointed to the kept-id copy of the section: property added to the copy visible through the link: %r, in the first section: %r" % (
                       "q" in a2.metadata, "q" in s), {})
            return
        f.close()
        f = nix.File.open(path, nix.FileMode.ReadOnly)
        for label, (reach, hname, mark) in marks.items():
            r.evals += 1
            home = f.blocks["b2"].data_arrays[hname]
            if reach(f).label != home.label:
                r.viol("C05|copy-relink|%s|reopened|link-reaches-another-object" % label,
                       "after reopening, %s reaches an object with label %r, the block's array has %r" % (label, reach(f).label, home.label), {})
                return
        if "q" not in f.blocks["b2"].data_arrays["signal"].metadata:
            r.viol("C05|copy-relink|metadata|reopened|link-reaches-another-object", "after reopening the metadata link reaches the first section", {})
            return
        r.traces += 1
        r.outcomes.add("copyrelink-ok")
    finally:
        env.safe_close(f)
        env.rm(path)


def run_soak(case, r):
    from mc import explorer as X
    if case["which"] == -1:
        h, hs_ = X.soak_two_handles()
    else:
        h = X.soak_histories()[case["which"]]
        hp = case["hp"]
        hs_ = None if hp is None else [hp[i % len(hp)] for i in range(len(h))]
    X.run_history("C05", {"seed": "mini", "ops": h, "single": True, "h": hs_}, r, check_handles=True)



def BOUNDS(tier):
    env.install_seams()
    return {"path_matrix": "all targets of the rich seed with >= 2 paths x menu x every path", "link_lists": 10,
            "dimension_link_shapes": [[3], [2, 3], [3, 2], [2, 2, 3]] + ([[4], [3, 3], [2, 3, 2]] if tier == "thorough" else [])}


def cases(tier):
    env.install_seams()
    env.reset_execution()
    path = env.fresh_path("c05enum_")
    f = nix.File.open(path, nix.FileMode.Overwrite)
    try:
        seeds.build_rich(f)
        T = path_table(f)
        table = {k: len(v) for k, v in T.items()}
    finally:
        env.safe_close(f)
        env.rm(path)
    out = []
    for key, n in table.items():
        for p in range(n):
            for m in range(len(MENU[key[0]])):
                out.append({"k": "paths", "target": list(key), "p": p, "m": m})
    for lname in ("group.data_arrays", "group.tags", "group.multi_tags", "group.data_frames", "group.sources", "tag.references",
                  "tag.sources", "multi_tag.references", "multi_tag.sources", "data_array.sources"):
        out.append({"k": "accept", "list": lname})
    shapes = [[3], [2, 3], [3, 2], [2, 2, 3]] + ([[4], [3, 3], [2, 3, 2]] if tier == "thorough" else [])
    for shp in shapes:
        out.append({"k": "dimlink", "shape": shp})
    out.append({"k": "setlink"})
    out.append({"k": "relink"})
    out.append({"k": "manydims"})
    out.append({"k": "copyrelink"})
    # long histories with refused cross-block calls in the middle / member lists refilled (mc/explorer.soak_histories)
    for which in (5, 6, -1):
        for hp in (("explicit",) if which == -1 else (None, "A", "AB")):
            out.append({"k": "soak", "which": which, "hp": hp})
    return out


def run_case(case):
    r = R()
    {"paths": run_paths, "accept": run_accept, "dimlink": run_dimlink, "setlink": run_setlink, "relink": run_relink, "manydims": run_manydims,
     "copyrelink": run_copyrelink, "soak": run_soak}[case["k"]](case, r)
    return r
