"""C03 - names are unique per parent, ids are unique, and all lookups agree.

E1 (sequences): for every container kind, all create/delete/reopen histories
up to depth d over an adversarial name alphabet; after every step every lookup
form of the container is compared with the model's creation-ordered sequence.
"""
import itertools
import uuid

import numpy as np

from mc import env
from mc.core import R, jhash
import nixio as nix
from nixio.exceptions import DuplicateName

LEVEL = "model_checking"
RULE = ("per container kind (22 kinds: file.blocks/sections, block.{data_arrays,data_frames,tags,multi_tags,"
        "groups,sources}, source.sources depth 1-3, section.sections depth 1-3, section.props, tag.features, "
        "group/tag/multi_tag/array link lists): all histories of length <= d over {create(name) for every name "
        "of the alphabet, delete(k-th member by name|id|index|negative index|object), REOPEN}; after every step "
        "len/iteration/index/name/id/membership/items are compared with the creation-ordered model; "
        "non-trivial = history containing at least one accepted create; distinct by construction")
ASSUMPTIONS = [
    "names limited to the stated alphabet; NUL and the single dot are HDF5 limits and excluded",
    "a name equal to the id of a sibling is ambiguous by construction (id lookup must win) and excluded",
    "re-appending an already linked entity to a link list is not in the alphabet",
]
HEX32 = "0123456789abcdef0123456789abcdef"
UUIDTXT = "12345678-1234-4234-8234-123456789abc"
LONG = "L" * 1024
ODDWS = "Z\u00a0\tq\u200b"          # starts with Z (sorts first), contains nbsp, tab, zero-width space
NAMES_Q = ["ab", "a", ODDWS, "ä", HEX32]
NAMES_T = ["ab", "a", "Z", "ä", " ", "..", HEX32, UUIDTXT, "urn:uuid:" + UUIDTXT, LONG, ODDWS, "nl\nx"]
CHUNK = 4
WALL_CAP = {"quick": 1500, "thorough": 10800}

# ------------------------------------------------------------------ container kinds
# each kind: setup(f) -> None (creates the parent), parent(f) -> parent object, cont(parent) -> container,
#            create(parent, name) -> None, link (True: link list; create = append pre-made target)


def _blk(f):
    return f.blocks["B"]


def mk_owned(setup, parent, cname, create):
    return {"setup": setup, "parent": parent, "cont": lambda p: getattr(p, cname), "create": create, "link": False}


def base_setup(f):
    f.create_block("B", "t")
    f.create_block("Other", "t")


def setup_src(depth):
    def s(f):
        base_setup(f)
        p = f.blocks["B"]
        for _ in range(depth):
            p = p.create_source("S", "t")
        # same chain in the other block, same names
        p2 = f.blocks["Other"]
        for _ in range(depth):
            p2 = p2.create_source("S", "t")
    return s


def parent_src(depth):
    def g(f):
        p = f.blocks["B"]
        for _ in range(depth):
            p = p.sources["S"]
        return p
    return g


def setup_sec(depth):
    def s(f):
        p = f
        for _ in range(depth):
            p = p.create_section("S", "t")
        q = f.create_section("Other", "t")
        for _ in range(depth):
            q = q.create_section("S", "t")
    return s


def parent_sec(depth):
    def g(f):
        p = f
        for _ in range(depth):
            p = p.sections["S"]
        return p
    return g


def link_kind(holder_setup, holder, cname, target_cont, make_target):
    """link list: targets with every alphabet name are created at setup; create(name) = append"""
    def setup(f, names):
        base_setup(f)
        b = f.blocks["B"]
        holder_setup(b)
        for nm in names:
            make_target(b, nm)

    def create(p, name):
        b = p._verif_block
        getattr(p, cname).append(target_cont(b)[name])

    def parent(f):
        b = f.blocks["B"]
        h = holder(b)
        h._verif_block = b
        return h
    return {"setup": setup, "parent": parent, "cont": lambda p: getattr(p, cname), "create": create, "link": True}


def mk_da(b, nm):
    b.create_data_array(nm, "t", data=np.array([1.0]))


def mk_df(b, nm):
    b.create_data_frame(nm, "t", col_dict={"c": int})


def mk_tag(b, nm):
    b.create_tag(nm, "t", [0.0])


def mk_mtag(b, nm):
    if "P" not in b.data_arrays:
        b.create_data_array("P", "t", data=np.array([1.0]))
    b.create_multi_tag(nm, "t", b.data_arrays["P"])


def mk_src(b, nm):
    b.create_source(nm, "t")


def hs_group(b):
    b.create_group("G", "t")


def hs_tag(b):
    b.create_tag("T", "t", [0.0])


def hs_mtag(b):
    b.create_data_array("P", "t", data=np.array([1.0]))
    b.create_multi_tag("M", "t", b.data_arrays["P"])


def hs_da(b):
    b.create_data_array("D", "t", data=np.array([1.0]))


KINDS = {
    "file.blocks": mk_owned(lambda f: None, lambda f: f, "blocks", lambda p, n: p.create_block(n, "t")),
    "file.sections": mk_owned(lambda f: None, lambda f: f, "sections", lambda p, n: p.create_section(n, "t")),
    "block.data_arrays": mk_owned(base_setup, _blk, "data_arrays", mk_da),
    "block.data_frames": mk_owned(base_setup, _blk, "data_frames", mk_df),
    "block.tags": mk_owned(base_setup, _blk, "tags", mk_tag),
    "block.multi_tags": mk_owned(lambda f: (base_setup(f), f.blocks["B"].create_data_array("P", "t", data=np.array([1.0]))),
                                 _blk, "multi_tags", mk_mtag),
    "block.groups": mk_owned(base_setup, _blk, "groups", lambda p, n: p.create_group(n, "t")),
    "block.sources": mk_owned(base_setup, _blk, "sources", mk_src),
    "source.sources@1": mk_owned(setup_src(1), parent_src(1), "sources", mk_src),
    "source.sources@2": mk_owned(setup_src(2), parent_src(2), "sources", mk_src),
    "source.sources@3": mk_owned(setup_src(3), parent_src(3), "sources", mk_src),
    "section.sections@1": mk_owned(setup_sec(1), parent_sec(1), "sections", lambda p, n: p.create_section(n, "t")),
    "section.sections@2": mk_owned(setup_sec(2), parent_sec(2), "sections", lambda p, n: p.create_section(n, "t")),
    "section.sections@3": mk_owned(setup_sec(3), parent_sec(3), "sections", lambda p, n: p.create_section(n, "t")),
    "section.props": mk_owned(setup_sec(1), parent_sec(1), "props", lambda p, n: p.create_property(n, [1])),
    "group.data_arrays": link_kind(hs_group, lambda b: b.groups["G"], "data_arrays", lambda b: b.data_arrays, mk_da),
    "group.data_frames": link_kind(hs_group, lambda b: b.groups["G"], "data_frames", lambda b: b.data_frames, mk_df),
    "group.tags": link_kind(hs_group, lambda b: b.groups["G"], "tags", lambda b: b.tags, mk_tag),
    "group.multi_tags": link_kind(hs_group, lambda b: b.groups["G"], "multi_tags", lambda b: b.multi_tags, mk_mtag),
    "group.sources": link_kind(hs_group, lambda b: b.groups["G"], "sources", lambda b: b.sources, mk_src),
    "tag.references": link_kind(hs_tag, lambda b: b.tags["T"], "references", lambda b: b.data_arrays, mk_da),
    "multi_tag.references": link_kind(hs_mtag, lambda b: b.multi_tags["M"], "references", lambda b: b.data_arrays, mk_da),
    "tag.sources": link_kind(hs_tag, lambda b: b.tags["T"], "sources", lambda b: b.sources, mk_src),
    "data_array.sources": link_kind(hs_da, lambda b: b.data_arrays["D"], "sources", lambda b: b.sources, mk_src),
}


def mk_nested_src(b, nm):
    """the link target is a CHILD of the top-level source "S"; a top-level source with the same name exists too"""
    if "S" not in b.sources:
        b.create_source("S", "t")
    b.sources["S"].create_source(nm, "t")
    if nm != "S":
        b.create_source(nm, "t")          # decoy of the same name at the top level (never linked)


for _holder, _hs, _hget in (("group", hs_group, lambda b: b.groups["G"]), ("tag", hs_tag, lambda b: b.tags["T"]),
                            ("multi_tag", hs_mtag, lambda b: b.multi_tags["M"]), ("data_array", hs_da, lambda b: b.data_arrays["D"])):
    KINDS["%s.sources@nested" % _holder] = link_kind(_hs, _hget, "sources", lambda b: b.sources["S"].sources, mk_nested_src)
KINDS["source.sources@8"] = mk_owned(setup_src(8), parent_src(8), "sources", mk_src)
KINDS["section.sections@8"] = mk_owned(setup_sec(8), parent_sec(8), "sections", lambda p, n: p.create_section(n, "t"))
KINDS["section.props@8"] = mk_owned(setup_sec(8), parent_sec(8), "props", lambda p, n: p.create_property(n, [1]))
DEEP_KINDS = ["file.blocks", "block.data_arrays", "section.sections@1"]


def BOUNDS(tier):
    if tier == "quick":
        return {"kinds": len(KINDS), "names": 5, "depth": 3, "deep_kinds": {"names": 4, "depth": 4},
                "handle_patterns": "single handle; two alternating handles (AB) and a passive second handle that only looks (AAA) for link lists and 5 owned kinds",
                "delete_modes": ["name", "id", "idx", "negidx", "obj"]}
    return {"kinds": len(KINDS), "names": 12, "depth": 3, "depth4_names": 4, "deep_kinds": {"names": 4, "depth": 5},
            "handle_patterns": "single; AB, AAB and a passive second handle AAA (5 names, depth 3); AB (4 names, depth 4) for link lists and 5 owned kinds",
            "delete_modes": ["name", "id", "idx", "negidx", "obj"]}


def gen_histories(names, depth):
    """model-only enumeration: state = tuple of present names in creation order"""
    out = []
    modes = ["name", "id", "idx", "negidx", "obj"]

    def go(state, hist, nreopen):
        if len(hist) >= depth:
            return
        opts = []
        for i, nm in enumerate(names):
            opts.append(("create", i))
        for k in range(len(state)):
            for mo in modes:
                opts.append(("delete", k, mo))
        if nreopen == 0 and hist:
            opts.append(("reopen",))
        for op in opts:
            h2 = hist + [list(op)]
            out.append(h2)
            if op[0] == "create":
                nm = names[op[1]]
                st2 = state if nm in state else state + (nm,)
            elif op[0] == "delete":
                st2 = state[:op[1]] + state[op[1] + 1:]
            else:
                st2 = state
            go(st2, h2, nreopen + (op[0] == "reopen"))
    go((), [], 0)
    return out


AB_KINDS = ["file.blocks", "block.data_arrays", "section.sections@1", "section.props", "source.sources@1"]


def cases(tier):
    out = []
    N4 = NAMES_Q[:3] + [HEX32]

    def add(kind, names, depth, pats, minlen=1):
        for h in gen_histories(list(range(len(names))), depth):
            if len(h) < minlen:
                continue
            for hp in pats:
                if hp is not None and len(h) < 2:
                    continue
                if hp == "AAA" and not any(h[i][0] == "delete" and any(o[0] == "create" for o in h[i + 1:])
                                           for i in range(len(h))):
                    continue     # a passive second handle matters when members come back after a delete
                out.append({"kind": kind, "names": names, "ops": h, "hp": hp})
            # 'quiet' variant: no lookups between a delete and the following operation (a lookup would
            # refresh per-handle state and hide stale caches); only for histories where that matters
            if any(op[0] == "delete" for op in h[:-1]):
                out.append({"kind": kind, "names": names, "ops": h, "hp": None, "quiet": True})

    # 'crowded' variant: the sibling containers of the OTHER kinds in the same parent already hold entities with
    # every name of the alphabet (names are unique per parent AND KIND: an array "x" never blocks a tag "x")
    for kind in KINDS:
        if not KINDS[kind]["link"] and not kind.startswith("source.sources"):
            n0 = len(out)
            add(kind, NAMES_Q, 2 if tier == "quick" else 3, [None])
            for c in out[n0:]:
                c["crowded"] = True
            out[n0:] = [c for c in out[n0:] if not c.get("quiet")]
    # containers that are NOT small: a dozen members (creation order n0..n11 differs from the lexicographic order
    # n0, n1, n10, n11, n2 ...), deletions in the two-digit range, re-creation, reopen
    N12 = ["n%d" % i for i in range(12)]
    big = [["create", i] for i in range(12)] + [["delete", 9, "idx"], ["delete", 9, "name"], ["reopen"], ["create", 9],
                                                 ["delete", 1, "id"], ["delete", 9, "negidx"], ["create", 10]]
    for kind in KINDS:
        out.append({"kind": kind, "names": N12, "ops": big, "hp": None, "single": True})     # (prefixes are not cases of their own)
        if KINDS[kind]["link"] or kind in AB_KINDS:
            out.append({"kind": kind, "names": N12, "ops": big, "hp": "AAA", "single": True})
    out.append({"kind": "dims11", "names": [], "ops": [], "hp": None})
    # long histories in which link TARGETS are deleted and re-created under the same name and linked again, with
    # by-name look-ups through held handles after every re-link (mc/explorer.soak_histories)
    out.append({"kind": "soak", "names": [], "ops": [], "hp": "explicit", "which": -1})
    from mc import explorer as X_
    for i in range(len(X_.soak_histories())):
        for hs in (None, "A", "AB", "AAB"):        # "A": every operation through one long-held set of handles
            out.append({"kind": "soak", "names": [], "ops": [], "hp": hs, "which": i})
    # names that are NOT short: 255 / 256 / 300 / 5 000 characters (the last two differ only in their last character)
    NLONG = ["x" * 255, "y" * 256, "z" * 299 + "a", "z" * 299 + "b", "w" * 4999 + "1", "w" * 4999 + "2"]
    longh = [["create", i] for i in range(6)] + [["create", 3], ["delete", 2, "name"], ["reopen"], ["delete", 3, "name"], ["create", 2]]
    for kind in KINDS:
        if "@2" not in kind and "@3" not in kind:
            out.append({"kind": kind, "names": NLONG, "ops": longh, "hp": None, "single": True})
    # containers with more members than any page / batch size one might think of (130, thorough 300)
    NBIG = 130 if tier == "quick" else 300
    NH = ["m%03d" % i for i in range(NBIG)]
    huge = [["create", i] for i in range(NBIG)] + [["delete", 128, "name"], ["delete", 64, "id"], ["reopen"], ["create", 128], ["delete", 0, "idx"]]
    for kind in KINDS:
        if not KINDS[kind]["link"] and "@2" not in kind and "@3" not in kind and "@8" not in kind:
            out.append({"kind": kind, "names": NH, "ops": huge, "hp": None, "check_from": NBIG - 1, "single": True})
    for kind in ("group.data_arrays", "tag.references", "data_array.sources@nested", "group.sources"):
        out.append({"kind": kind, "names": NH, "ops": huge, "hp": None, "check_from": NBIG - 1, "single": True})
    for kind in KINDS:
        ab = KINDS[kind]["link"] or kind in AB_KINDS
        if tier == "quick":
            add(kind, NAMES_Q, 2 if "@8" in kind else 3, [None] + (["AB", "AAA"] if ab else []))
            if kind in DEEP_KINDS:
                add(kind, N4, 4, [None], minlen=4)
        elif "@8" in kind:
            add(kind, NAMES_Q, 3, [None])
        else:
            add(kind, NAMES_T, 3, [None])
            add(kind, N4, 4, [None], minlen=4)
            if ab:
                add(kind, NAMES_Q, 3, ["AB", "AAB", "AAA"])
                add(kind, N4, 4, ["AB"], minlen=4)
            if kind in DEEP_KINDS:
                add(kind, N4, 5, [None], minlen=5)
    return out


# ------------------------------------------------------------------ oracle

def wellformed(i):
    try:
        return isinstance(i, str) and str(uuid.UUID(i)) == i.lower()
    except Exception:
        return False


def nclass(nm):
    if nm == HEX32:
        return "hex32"
    if nm == UUIDTXT:
        return "uuid"
    if nm.startswith("urn:uuid:"):
        return "urn"
    if len(nm) > 100:
        return "long"
    if nm in (" ", ".."):
        return "blank-dots"
    if any(ch in nm for ch in "\t\n\u00a0\u200b"):
        return "odd-whitespace"
    if not nm.isascii():
        return "nonascii"
    return "plain"


def check_container(r, kind, c, model, absent, stage, link, gone=()):
    """model: list of (name, id). Returns False after the first disagreement."""
    n = len(model)

    def bad(what, ncls, detail):
        r.viol("C03|%s|%s|%s|%s" % (kind, what, ncls, stage), "%s: %s" % (kind, detail), {"model": [m[0][:40] for m in model]})
        return False

    r.transitions += 1
    try:
        ln = len(c)
    except Exception as e:  # noqa
        return bad("len-raises-" + type(e).__name__, "-", "len() raises %r" % e)
    if ln != n:
        return bad("len", "-", "len = %d, model has %d members" % (ln, n))
    try:
        lst = [(e.name, e.id) for e in c]
    except Exception as e:  # noqa
        return bad("iter-raises-" + type(e).__name__, "-", "iteration raises %r" % e)
    if lst != [(a, b) for a, b in model]:
        return bad("iteration-order", "-", "iteration gives %r, creation order is %r" % (
            [x[0][:20] for x in lst], [m[0][:20] for m in model]))
    try:
        its = [(k, e.id, e.name) for k, e in c.items()]
    except Exception as e:  # noqa
        return bad("items-raises-" + type(e).__name__, "-", "items() raises %r" % e)
    if its != [(b, b, a) for a, b in model]:
        return bad("items", "-", "items() gives %r" % ([x[2][:20] for x in its],))
    for i in range(-n, n):
        try:
            e = c[i]
            if e.id != model[i][1]:
                return bad("index", "neg" if i < 0 else "pos", "c[%d] is %r, expected %r" % (i, e.name[:30], model[i][0][:30]))
        except Exception as ex:  # noqa
            return bad("index-raises-" + type(ex).__name__, "neg" if i < 0 else "pos", "c[%d] raises %r" % (i, ex))
    for i in (n, -n - 1):
        try:
            e = c[i]
            return bad("index-out-of-range-accepted", "neg" if i < 0 else "pos", "c[%d] returned %r with %d members" % (i, e.name[:30], n))
        except IndexError:
            pass
        except Exception as ex:  # noqa
            return bad("index-out-of-range-raises-" + type(ex).__name__, "neg" if i < 0 else "pos", "c[%d] raises %r" % (i, ex))
    for nm, eid in model:
        nc = nclass(nm)
        try:
            e = c[nm]
            if e.id != eid:
                return bad("by-name-wrong-entity", nc, "c[%r] returned entity %r" % (nm[:40], e.name[:40]))
        except Exception as ex:  # noqa
            return bad("by-name-raises-" + type(ex).__name__, nc, "c[%r] raises %s" % (nm[:40], type(ex).__name__))
        try:
            e = c[eid]
            if e.name != nm:
                return bad("by-id-wrong-entity", nc, "c[id of %r] returned %r" % (nm[:40], e.name[:40]))
        except Exception as ex:  # noqa
            return bad("by-id-raises-" + type(ex).__name__, nc, "c[id of %r] raises %s" % (nm[:40], type(ex).__name__))
        try:
            if nm not in c:
                return bad("name-not-contained", nc, "%r in c is False for a member" % nm[:40])
            if eid not in c:
                return bad("id-not-contained", nc, "id of %r in c is False for a member" % nm[:40])
            if c[eid] not in c:
                return bad("entity-not-contained", nc, "entity %r in c is False for a member" % nm[:40])
        except Exception as ex:  # noqa
            return bad("contains-raises-" + type(ex).__name__, nc, "membership test for %r raises %r" % (nm[:40], ex))
    for nm in absent:
        nc = nclass(nm)
        try:
            if nm in c:
                return bad("absent-name-contained", nc, "%r in c is True but no member has that name" % nm[:40])
        except Exception as ex:  # noqa
            return bad("contains-raises-" + type(ex).__name__, nc, "membership test for absent %r raises %r" % (nm[:40], ex))
        try:
            e = c[nm]
            return bad("absent-name-found", nc, "c[%r] returned %r but no member has that name" % (nm[:40], e.name[:40]))
        except (KeyError, IndexError):
            pass
        except Exception as ex:  # noqa
            return bad("absent-lookup-raises-" + type(ex).__name__, nc, "c[%r] raises %r" % (nm[:40], ex))
    for gid in gone:
        try:
            if gid in c:
                return bad("deleted-id-contained", "-", "the id of a deleted/unlinked member is still reported as contained")
            try:
                e = c[gid]
                return bad("deleted-id-found", "-", "c[id of a deleted/unlinked member] returned %r" % e.name[:40])
            except (KeyError, IndexError):
                pass
        except Exception as ex:  # noqa
            return bad("deleted-id-raises-" + type(ex).__name__, "-", "lookup of a deleted id raises %r" % ex)
    try:
        if "abcdef00-0000-4000-a000-0000000fffff" in c:
            return bad("unknown-id-contained", "-", "an id that does not exist is reported as contained")
    except Exception as ex:  # noqa
        return bad("contains-raises-" + type(ex).__name__, "-", "membership test for unknown id raises %r" % ex)
    return True


def all_ids(f):
    ids = []

    def ent(e):
        ids.append(e.id)

    for b in f.blocks:
        ent(b)
        for cn in ("data_arrays", "data_frames", "tags", "multi_tags", "groups"):
            for e in getattr(b, cn):
                ent(e)

        def srcs(p):
            for s_ in p.sources:
                ent(s_)
                srcs(s_)
        srcs(b)

    def secs(p):
        for s_ in p.sections:
            ent(s_)
            for pr in s_.props:
                ent(pr)
            secs(s_)
    secs(f)
    return ids


def crowd(parent, kind, names):
    """fill every sibling container of another kind in the same parent with entities of every name"""
    cname = kind.split(".")[1].split("@")[0]
    if isinstance(parent, nix.File):
        makers = {"blocks": lambda n: parent.create_block(n, "t"), "sections": lambda n: parent.create_section(n, "t")}
    elif isinstance(parent, nix.Block):
        makers = {"data_arrays": lambda n: mk_da(parent, n), "data_frames": lambda n: mk_df(parent, n), "tags": lambda n: mk_tag(parent, n),
                  "multi_tags": lambda n: mk_mtag(parent, n), "groups": lambda n: parent.create_group(n, "t"),
                  "sources": lambda n: mk_src(parent, n)}
    elif isinstance(parent, nix.Section):
        makers = {"sections": lambda n: parent.create_section(n, "t"), "props": lambda n: parent.create_property(n, [1])}
    else:
        return
    for other, mk in makers.items():
        if other == cname or (cname == "data_arrays" and other == "multi_tags"):
            continue        # (a multi tag needs a positions array, which would itself be a member of block.data_arrays)
        for nm in names:
            mk(nm)


def run_dims11(r, prop="C03"):
    """an array of rank 11: the descriptors are numbered 1..11 (two-digit numbers sort before '2' as text)"""
    env.install_seams()
    env.reset_execution()
    path = env.fresh_path("c03d_")
    f = nix.File.open(path, nix.FileMode.Overwrite)
    try:
        b = f.create_block("B", "t")
        da = b.create_data_array("d", "t", data=np.zeros((1,) * 11))
        kinds = []
        for i in range(11):
            k = i % 3
            if k == 0:
                da.append_set_dimension(["l%d" % i])
                kinds.append("SetDimension")
            elif k == 1:
                da.append_sampled_dimension(float(i + 1))
                kinds.append("SampledDimension")
            else:
                da.append_range_dimension([float(i)])
                kinds.append("RangeDimension")
        for stage in ("in-session", "after-reopen"):
            dims = list(da.dimensions)
            got = [(type(d).__name__, d.index) for d in dims]
            exp = [(k, i + 1) for i, k in enumerate(kinds)]
            byidx = [(type(da.dimensions[i]).__name__, da.dimensions[i].index) for i in range(11)]
            r.transitions += 3
            if len(da.dimensions) != 11 or got != exp or byidx != exp:
                r.viol("%s|data_array.dimensions|rank-11|%s|order-or-index" % (prop, stage),
                       "dimension descriptors of a rank-11 array: iteration %r, by position %r, expected %r" % (got, byidx, exp), {})
                return
            if dims[10].ticks != (10.0,) if kinds[10] == "RangeDimension" else False:
                r.viol("%s|data_array.dimensions|rank-11|%s|content" % (prop, stage), "11th descriptor has the wrong content", {})
                return
            f.close()
            f = nix.File.open(path, nix.FileMode.ReadWrite)
            da = f.blocks["B"].data_arrays["d"]
        r.traces = 1
        r.nontrivial = 1
    finally:
        env.safe_close(f)
        env.rm(path)


def run_case(case):
    r = R()
    r.evals = 1
    kind = case["kind"]
    if kind == "dims11":
        run_dims11(r)
        return r
    if kind == "soak":
        from mc import explorer as X
        if case["which"] == -1:
            h, hs_ = X.soak_two_handles()
        else:
            h = X.soak_histories()[case["which"]]
            hp = case["hp"]
            hs_ = None if hp is None else [hp[i % len(hp)] for i in range(len(h))]
        X.run_history("C03", {"seed": "mini", "ops": h, "single": True, "h": hs_}, r, check_handles=True)
        if not r.violations:
            r.nontrivial = 1
        return r
    K = KINDS[kind]
    names = case["names"]
    hist = case["ops"]
    env.install_seams()
    env.reset_execution()
    path = env.fresh_path("c03_")
    f = nix.File.open(path, nix.FileMode.Overwrite)
    try:
        if K["link"]:
            K["setup"](f, names)
        else:
            K["setup"](f)
        if case.get("crowded"):
            crowd(K["parent"](f), kind, names)
        hp = case.get("hp")         # handle pattern, e.g. "AB": operations alternate between two container handles
        p = K["parent"](f)
        c = K["cont"](p)
        handles = {"A": (p, c)}
        if hp:
            pb = K["parent"](f)
            handles["B"] = (pb, K["cont"](pb))
        gone = []
        model = []          # (name, id) in creation order
        seen_ids = {}       # name -> id at creation (ids never change)
        created_any = False
        for i, op in enumerate(hist):
            last = i == len(hist) - 1
            nviol = len(r.violations)
            if hp:
                p, c = handles[hp[i % len(hp)]]
            if op[0] == "create":
                nm = names[op[1]]
                nc = nclass(nm)
                dup = any(m[0] == nm for m in model)
                if K["link"] and dup:
                    return r      # re-append of a linked entity: outside the alphabet
                try:
                    K["create"](p, nm)
                    exc = None
                except Exception as e:  # noqa
                    exc = e
                if dup:
                    if exc is None:
                        r.viol("C03|%s|duplicate-accepted|%s" % (kind, nc), "%s: second create under existing name %r accepted" % (kind, nm[:40]), {})
                        return r
                    if not isinstance(exc, DuplicateName):
                        r.viol("C03|%s|duplicate-raises-%s|%s" % (kind, type(exc).__name__, nc),
                               "%s: duplicate name %r raises %s instead of DuplicateName" % (kind, nm[:40], type(exc).__name__), {})
                        return r
                    r.outcomes.add("dup-refused")
                else:
                    if exc is not None:
                        r.viol("C03|%s|legal-name-refused-%s|%s" % (kind, type(exc).__name__, nc),
                               "%s: legal name %r refused: %s %s" % (kind, nm[:40], type(exc).__name__, str(exc)[:100]), {})
                        return r
                    # id of the new member: read positionally (last in creation order) - cross-checked below
                    try:
                        new = [e for e in c if e.name == nm]
                        eid = new[-1].id if new else None
                    except Exception:
                        eid = None
                    if eid is None:
                        r.viol("C03|%s|created-not-listed|%s" % (kind, nc), "%s: %r created but not found by iteration" % (kind, nm[:40]), {})
                        return r
                    model.append((nm, eid))
                    if eid in gone:
                        gone.remove(eid)     # link lists: the same entity may be linked again
                    created_any = True
                    r.outcomes.add("created:" + nc)
            elif op[0] == "delete":
                k, mo = op[1], op[2]
                nm, eid = model[k]
                try:
                    if mo == "name":
                        del c[nm]
                    elif mo == "id":
                        del c[eid]
                    elif mo == "idx":
                        del c[k]
                    elif mo == "negidx":
                        del c[k - len(model)]
                    else:
                        del c[c[k]]
                    exc = None
                except Exception as e:  # noqa
                    exc = e
                if exc is not None:
                    r.viol("C03|%s|delete-by-%s-raises-%s|%s" % (kind, mo, type(exc).__name__, nclass(nm)),
                           "%s: deleting member %r by %s raises %s" % (kind, nm[:40], mo, type(exc).__name__), {})
                    return r
                del model[k]
                if not any(m[1] == eid for m in model):
                    gone.append(eid)
                r.outcomes.add("deleted-by-" + mo)
            else:
                f.close()
                f = nix.File.open(path, nix.FileMode.ReadWrite)
                p = K["parent"](f)
                c = K["cont"](p)
                handles = {"A": (p, c)}
                if hp:
                    pb = K["parent"](f)
                    handles["B"] = (pb, K["cont"](pb))
                r.outcomes.add("reopen")
            if case.get("quiet") and op[0] == "delete" and not last:
                continue
            if i < case.get("check_from", 0):
                continue            # huge containers: the container is verified once it is full, and after every later step
            absent = [nm for nm in names if not any(m[0] == nm for m in model)] + ["nope"]
            ok = check_container(r, kind, c, model, absent, "after-" + op[0] + ("-" + op[2] if op[0] == "delete" else ""), K["link"], gone)
            if ok and hp:
                for hn, (_hp, hc) in handles.items():
                    ok = ok and check_container(r, kind, hc, model, absent, "held-handle-" + hn, K["link"], gone)
            if ok:
                # fresh container handle must agree too
                ok = check_container(r, kind, K["cont"](K["parent"](f)), model, absent, "fresh-handle", K["link"], gone)
            if ok:
                # ids: well formed, unique in the file, stable
                ids = all_ids(f)
                for nm, eid in model:
                    if not wellformed(eid):
                        r.viol("C03|%s|id-malformed" % kind, "%s: id %r of %r is not a well-formed UUID" % (kind, eid, nm[:40]), {})
                        ok = False
                        break
                    if not K["link"] and seen_ids.setdefault((nm, eid), eid) != eid:
                        ok = False
                if ok and len(set(ids)) != len(ids):
                    r.viol("C03|%s|id-not-unique" % kind, "%s: two entities of the file share an id" % kind, {})
                    ok = False
            if not ok:
                if not last and not case.get("single"):
                    # the shorter history is a case of its own and reports the disagreement
                    del r.violations[nviol:]
                    r.bump("pruned_after_earlier_violation")
                return r
        r.states.add(jhash([kind, [m[0] for m in model]]))
        r.traces = 1
        if created_any:
            r.nontrivial = 1
        return r
    finally:
        env.safe_close(f)
        env.rm(path)
