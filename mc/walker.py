"""Canonical walk of a NIX file through the public API only.

walk(file) returns a JSON-able tree: for every entity every public readable
property discovered by introspection; owned containers expanded in iteration
order, link containers and entity-valued properties recorded as references,
arrays as (dtype, shape, bytes), exceptions as {"$exc": type}.
"""
import inspect
import enum
import re

import numpy as np

import nixio as nix
from nixio.container import Container, LinkContainer
from nixio.dimensions import Dimension, DimensionLink
from nixio.feature import Feature
from nixio.data_view import DataView

SKIP = {
    "File": {"auto_update_timestamps"},
    "DataArray": {"data", "file"},
}
GLOBAL_SKIP = {"file"}
ENTITY_TYPES = (nix.Block, nix.Group, nix.DataArray, nix.DataFrame, nix.Tag, nix.MultiTag,
                nix.Source, nix.Section, nix.Property, Feature)

_PROPS = {}
# derived (O(n) scans each): covered by C13; skipped in 'core' walks
DERIVED = {"referring_objects", "referring_blocks", "referring_groups", "referring_data_arrays",
           "referring_tags", "referring_multi_tags", "referring_sources", "parent", "parent_source",
           "parent_block"}
CORE = [False]


def props_of(cls):
    p = _PROPS.get(cls)
    if p is None:
        names = [n for n, v in inspect.getmembers(cls, lambda x: isinstance(x, property))
                 if not n.startswith("_")]
        skip = GLOBAL_SKIP | SKIP.get(cls.__name__, set())
        p = [n for n in names if n not in skip]
        _PROPS[cls] = p
    return p


def enc_array(a):
    a = np.asarray(a)
    if a.dtype == object or a.dtype.kind in "US":
        return {"$arr": "str", "shape": list(a.shape), "v": [x if isinstance(x, str) else (x.decode() if isinstance(x, bytes) else repr(x)) for x in a.ravel().tolist()]}
    if a.dtype.fields:
        return {"$arr": str(a.dtype.descr), "shape": list(a.shape), "v": [enc(list(row)) for row in a.tolist()] if a.shape else enc(list(a.tolist()))}
    return {"$arr": a.dtype.str, "shape": list(a.shape), "b": np.ascontiguousarray(a).tobytes().hex()}


def enc(v, depth=0):
    if v is None or isinstance(v, (bool, str)):
        return v
    if isinstance(v, (int, np.integer)) and not isinstance(v, (bool, np.bool_)):
        return int(v)
    if isinstance(v, (np.bool_,)):
        return bool(v)
    if isinstance(v, (float, np.floating)):
        f = float(v)
        if f != f:
            return "NaN"
        if f in (float("inf"), float("-inf")):
            return repr(f)
        return f
    if isinstance(v, bytes):
        return {"$bytes": v.decode("utf-8", "replace")}
    if isinstance(v, enum.Enum):
        return "%s.%s" % (type(v).__name__, v.name)
    if isinstance(v, np.dtype):
        return {"$dtype": str(v)}
    if isinstance(v, type):
        return {"$type": v.__name__}
    if isinstance(v, np.ndarray):
        return enc_array(v)
    if isinstance(v, ENTITY_TYPES):
        return ref(v)
    if isinstance(v, LinkContainer):
        return [ref(x) for x in v]
    if isinstance(v, Container):
        return [walk_obj(x) for x in v]
    if isinstance(v, DimensionLink):
        return walk_obj(v)
    if isinstance(v, Dimension):
        return walk_obj(v)
    if isinstance(v, DataView):
        return {"$view": enc_array(v[:]) if v.valid else None}
    if isinstance(v, (list, tuple)):
        return [enc(x, depth + 1) for x in v]
    if isinstance(v, dict):
        return {str(k): enc(x, depth + 1) for k, x in v.items()}
    if isinstance(v, np.void):
        return enc(list(v.tolist()))
    return {"$repr": repr(v)[:80]}


def ref(e):
    try:
        return {"$ref": e.id, "$rk": type(e).__name__}
    except Exception as exc:  # noqa
        return {"$ref": {"$exc": type(exc).__name__}, "$rk": type(e).__name__}


def read_prop(obj, name):
    try:
        return enc(getattr(obj, name))
    except Exception as exc:  # noqa
        return {"$exc": type(exc).__name__}


def walk_obj(obj):
    cls = type(obj)
    out = {"$k": cls.__name__}
    for name in props_of(cls):
        if CORE[0] and name in DERIVED:
            continue
        if name == "id":
            try:
                out["id"] = {"$id": obj.id}
            except Exception as exc:  # noqa
                out["id"] = {"$exc": type(exc).__name__}
            continue
        out[name] = read_prop(obj, name)
    if isinstance(obj, (nix.DataArray, nix.DataFrame)):
        try:
            out["$data"] = enc_array(obj[:])
        except Exception as exc:  # noqa
            out["$data"] = {"$exc": type(exc).__name__}
    return out


def walk(f, core=False):
    CORE[0] = core
    try:
        return walk_obj(f)
    finally:
        CORE[0] = False


# ------------------------------------------------------------------ canonical forms

def canon(tree, drop=(), table=None):
    """ids -> the name path of the entity's defining occurrence (owned position in the tree), so two
    trees are equal iff they are isomorphic up to a renaming of ids; optionally drop keys."""
    if table is None:
        table = {}

    def define(t, path):
        if isinstance(t, dict):
            if "$k" in t and isinstance(t.get("id"), dict) and "$id" in t["id"]:
                i = t["id"]["$id"]
                if isinstance(i, str) and i not in table:
                    table[i] = "@" + path
            for k, v in t.items():
                if k in drop:
                    continue
                if isinstance(v, list):
                    for j, x in enumerate(v):
                        nm = x.get("name") if isinstance(x, dict) and isinstance(x.get("name"), str) else None
                        define(x, "%s/%s[%s]" % (path, k, nm if nm is not None else j))
                elif isinstance(v, dict):
                    define(v, "%s/%s" % (path, k))
        elif isinstance(t, list):
            for j, x in enumerate(t):
                define(x, "%s[%d]" % (path, j))

    def cid(x):
        if not isinstance(x, str):
            return x
        return table.get(x, "?unknown-id")

    def go(t):
        if isinstance(t, dict):
            if "$id" in t and len(t) == 1:
                return {"$id": cid(t["$id"])}
            if "$ref" in t:
                return {"$ref": cid(t["$ref"]) if isinstance(t["$ref"], str) else t["$ref"], "$rk": t.get("$rk")}
            return {k: go(v) for k, v in t.items() if k not in drop}
        if isinstance(t, list):
            return [go(x) for x in t]
        return t

    define(tree, "")
    return go(tree)


def project(tree, pattern):
    """Restrict `tree` to the keys present in `pattern` (lists positionally)."""
    if isinstance(pattern, dict) and isinstance(tree, dict):
        if "$id" in pattern or "$ref" in pattern or "$arr" in pattern:
            return tree
        return {k: project(tree.get(k, {"$missing": True}), v) for k, v in pattern.items()}
    if isinstance(pattern, list) and isinstance(tree, list):
        out = []
        for i, x in enumerate(tree):
            out.append(project(x, pattern[i]) if i < len(pattern) else x)
        return out
    return tree


def diff(a, b, path="", out=None, limit=8):
    """Human readable list of differences between two trees."""
    if out is None:
        out = []
    if len(out) >= limit:
        return out
    if isinstance(a, dict) and isinstance(b, dict):
        for k in list(a.keys()) + [k for k in b.keys() if k not in a]:
            if k not in a:
                out.append("%s/%s: missing on left, right=%s" % (path, k, short(b[k])))
            elif k not in b:
                out.append("%s/%s: left=%s, missing on right" % (path, k, short(a[k])))
            else:
                diff(a[k], b[k], "%s/%s" % (path, k), out, limit)
            if len(out) >= limit:
                break
        return out
    if isinstance(a, list) and isinstance(b, list):
        if len(a) != len(b):
            out.append("%s: length %d != %d (left=%s right=%s)" % (path, len(a), len(b), short(a), short(b)))
            return out
        for i, (x, y) in enumerate(zip(a, b)):
            diff(x, y, "%s[%d]" % (path, i), out, limit)
        return out
    if a != b or type(a) is not type(b) and not (isinstance(a, (int, float)) and isinstance(b, (int, float)) and not isinstance(a, bool) and not isinstance(b, bool)):
        out.append("%s: %s != %s" % (path, short(a), short(b)))
    return out


def short(x, n=90):
    if isinstance(x, dict) and "$k" in x:
        return "<%s %s>" % (x["$k"], x.get("name"))
    s = repr(x)
    return s if len(s) <= n else s[:n] + "..."


def diff_keys(a, b):
    """Signature-friendly summary of where two trees differ: sorted key paths without indices."""
    d = diff(a, b, limit=50)
    keys = set()
    for line in d:
        p = line.split(":", 1)[0]
        p = re.sub(r"\[\d+\]", "[]", p)
        keys.add(p)
    return sorted(keys)
