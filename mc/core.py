"""Check runner: exhaustive enumeration of cases, fan-out, findings, evidence.

A check module (checks/Cxx.py) supplies

    LEVEL        evidence level ("exploration", "fault_enumeration", "model_checking")
    RULE         text: how cases are enumerated, what counts as non-trivial
    ASSUMPTIONS  list of strings
    BOUNDS(tier) -> dict (recorded in the evidence)
    cases(tier)  -> iterable of JSON-able case descriptions (the *complete*
                    bounded space; never sampled)
    run_case(case) -> R   executes one case on the real implementation

The runner enumerates every case, distributes them over worker processes,
merges the results, classifies violations against known_findings.json and
writes the evidence file.
"""
import hashlib
import importlib
import json
import multiprocessing as mp
import os
import random
import signal
import sys
import time
import traceback

VERIF = os.path.dirname(os.path.dirname(os.path.realpath(__file__)))
# evidence/ and replays/ go to VERIF_OUT (default: /verif); used by the mutation harness so that
# runs against scratch copies of the library never overwrite the committed evidence
OUT = os.environ.get("VERIF_OUT", VERIF)
NWORKERS = int(os.environ.get("VERIF_WORKERS", "16"))


def jhash(obj, n=12):
    s = json.dumps(obj, sort_keys=True, default=repr, ensure_ascii=True)
    return hashlib.sha1(s.encode()).hexdigest()[:n]


class R:
    """Result of one case (may stand for many evaluations)."""

    __slots__ = ("evals", "nontrivial", "outcomes", "violations", "states",
                 "transitions", "traces", "extra")

    def __init__(self):
        self.evals = 0           # evaluations on the real implementation
        self.nontrivial = 0      # distinct non-trivial evaluations (by construction)
        self.outcomes = set()    # small strings: distinct observed outcome classes
        self.violations = []     # (signature, what, detail)
        self.states = set()      # hashes of distinct states / configurations
        self.transitions = 0     # operations / queries executed on real code
        self.traces = 0          # histories fully agreeing with the model
        self.extra = {}          # free counters

    def viol(self, sig, what, detail=None):
        self.violations.append((sig, what, detail))

    def bump(self, key, n=1):
        self.extra[key] = self.extra.get(key, 0) + n


class Merged:
    def __init__(self):
        self.evals = 0
        self.nontrivial = 0
        self.outcomes = set()
        self.viol = {}      # sig -> (what, case, detail, size)
        self.viol_count = {}
        self.states = set()
        self.transitions = 0
        self.traces = 0
        self.extra = {}
        self.cases = 0
        self.samples = []

    def add(self, case, r):
        self.cases += 1
        self.evals += r.evals
        self.nontrivial += r.nontrivial
        self.outcomes |= r.outcomes
        self.states |= r.states
        self.transitions += r.transitions
        self.traces += r.traces
        for k, v in r.extra.items():
            self.extra[k] = self.extra.get(k, 0) + v
        for sig, what, detail in r.violations:
            self.viol_count[sig] = self.viol_count.get(sig, 0) + 1
            size = len(json.dumps([case, detail], default=repr))
            old = self.viol.get(sig)
            if old is None or size < old[3]:
                self.viol[sig] = (what, case, detail, size)


_MOD = None


def _load(prop):
    global _MOD
    sys.path.insert(0, VERIF)
    _MOD = importlib.import_module("checks.%s" % prop)
    return _MOD


def _run_one(case):
    from . import env
    try:
        return _MOD.run_case(case)
    except BaseException as exc:  # harness must never die silently
        if isinstance(exc, (KeyboardInterrupt, SystemExit)):
            raise
        r = R()
        tb = traceback.extract_tb(exc.__traceback__)
        where = "?"
        for fr in reversed(tb):
            if "/nixio/" in fr.filename:
                where = "%s:%s" % (os.path.basename(fr.filename), fr.name)
                break
        else:
            if tb:
                where = "%s:%s" % (os.path.basename(tb[-1].filename), tb[-1].name)
        r.evals = 1
        r.viol("%s|unexpected-exception|%s|%s" % (_MOD.__name__.split(".")[-1],
                                                   type(exc).__name__, where),
               "unexpected %s escaping the scenario at %s: %s" % (
                   type(exc).__name__, where, str(exc)[:200]),
               {"traceback": traceback.format_exc()[-1500:]})
        return r


def _worker_chunk(chunk):
    out = []
    for case in chunk:
        out.append((case, _run_one(case)))
    return out


def _worker_init():
    signal.signal(signal.SIGINT, signal.SIG_IGN)
    import gc
    gc.freeze()
    from . import env
    env._SCRATCH = None
    import atexit
    atexit.register(env.cleanup_scratch)


def _selftest(case):
    """Same case twice -> identical observations (determinism)."""
    a = _run_one(case)
    b = _run_one(case)
    ka = (a.evals, sorted(a.outcomes), sorted(v[0] for v in a.violations), sorted(a.states))
    kb = (b.evals, sorted(b.outcomes), sorted(v[0] for v in b.violations), sorted(b.states))
    from . import env
    env.cleanup_scratch()
    return ka == kb, repr(ka)[:300], repr(kb)[:300]


def load_known():
    path = os.path.join(VERIF, "known_findings.json")
    try:
        with open(path) as fh:
            return json.load(fh)
    except FileNotFoundError:
        return []


def main(argv=None):
    argv = list(sys.argv[1:] if argv is None else argv)
    if not argv:
        print("usage: check <id> quick|thorough | check <id> --replay <file>")
        return 2
    prop = argv[0]
    mod = _load(prop)
    if len(argv) >= 3 and argv[1] == "--replay":
        return replay(prop, mod, argv[2])
    tier = argv[1] if len(argv) > 1 else os.environ.get("VERIF_TIER", "quick")
    if tier not in ("quick", "thorough"):
        print("unknown tier", tier)
        return 2
    seed = int(os.environ.get("VERIF_SEED", "0") or 0)
    cap = float(os.environ.get("VERIF_WALL_CAP", getattr(mod, "WALL_CAP", {}).get(tier, 900 if tier == "quick" else 5400)))
    t0 = time.time()

    from . import env  # noqa: F401  (imports nixio from the tree under test)

    all_cases = list(mod.cases(tier))
    ncases = len(all_cases)
    if ncases == 0:
        print("INFRA: no cases enumerated")
        return 2
    samples_idx = sorted(random.Random(seed).sample(range(ncases), min(3, ncases)))
    samples = [all_cases[i] for i in samples_idx]
    # VERIF_SEED only rotates the enumeration order; the set is always complete
    order = list(range(ncases))
    random.Random(seed).shuffle(order)
    limit = int(os.environ.get("VERIF_CASE_LIMIT", "0") or 0)
    if limit:
        # audit aid only (tools/cov_audit.sh): a prefix of the shuffled case list; the run is reported as not exhaustive
        order = order[:limit]
    chunk_n = getattr(mod, "CHUNK", None) or max(1, min(64, ncases // (NWORKERS * 8) or 1))
    chunks = [[all_cases[i] for i in order[k:k + chunk_n]] for k in range(0, len(order), chunk_n)]

    merged = Merged()
    capped = False
    nw = min(NWORKERS, len(chunks))
    ctx = mp.get_context("fork")
    with ctx.Pool(nw, initializer=_worker_init) as pool:
        ok, ka, kb = pool.apply(_selftest, (all_cases[order[0]],))
        if not ok:
            print("INFRA: determinism self-test failed\n %s\n %s" % (ka, kb))
            return 2
        try:
            for res in pool.imap_unordered(_worker_chunk, chunks):
                for case, r in res:
                    merged.add(case, r)
                if time.time() - t0 > cap:
                    capped = True
                    pool.terminate()
                    break
        except Exception:
            traceback.print_exc()
            print("INFRA: worker failure")
            return 2
    wall = time.time() - t0

    known = {k["signature"]: k for k in load_known()
             if k.get("property") == prop and k.get("status") == "open"}
    exit_code = 0
    nviol = 0
    rdir = os.path.join(OUT, "replays", prop)
    for sig in sorted(merged.viol):
        what, case, detail, _ = merged.viol[sig]
        cnt = merged.viol_count[sig]
        rec = {"property": prop, "signature": sig, "what": what, "case": case,
               "detail": detail, "occurrences": cnt}
        os.makedirs(rdir, exist_ok=True)
        rpath = os.path.join(rdir, "%s.json" % jhash(sig))
        with open(rpath, "w") as fh:
            json.dump(rec, fh, indent=1, default=repr, ensure_ascii=False)
        if sig in known:
            print("KNOWN-FINDING: property=%s %s [sig=%s; %d occurrences; replay=%s]"
                  % (prop, known[sig].get("what", what), sig, cnt, rpath))
        else:
            nviol += 1
            exit_code = 1
            print("VIOLATION property=%s replay=%s" % (prop, rpath))
            print("  signature: %s\n  what: %s\n  occurrences: %d" % (sig, what if len(what) <= 700 else what[:700] + " ...", cnt))

    level = mod.LEVEL
    cov = {
        "evaluations": merged.evals,
        "distinct_nontrivial": merged.nontrivial,
        "rule": mod.RULE,
        "samples": samples,
        "states": len(merged.states) if merged.states else merged.cases,
        "transitions": merged.transitions if merged.transitions else merged.evals,
        "traces_validated_against_impl": merged.traces,
        "cases_enumerated": ncases,
        "cases_executed": merged.cases,
        "distinct_outcomes": len(merged.outcomes),
        "outcome_classes": sorted(merged.outcomes)[:60],
        "exhaustive": (not capped) and merged.cases == ncases,
        "bounds": mod.BOUNDS(tier) if hasattr(mod, "BOUNDS") else {},
        "violating_signatures": len(merged.viol),
        "known_finding_signatures": sorted(s for s in merged.viol if s in known),
        "counters": merged.extra,
        "workers": nw,
    }
    if getattr(mod, "BFS_STATS", None):
        # model-side BFS of the states mode: states per level, merged (de-duplicated) transitions
        cov["state_search"] = mod.BFS_STATS
    if capped:
        cov["wall_cap_s"] = cap
        cov["explanation"] = ("wall-clock cap hit: %d of %d cases executed; "
                              "NOT exhaustive" % (merged.cases, ncases))
    ev = {
        "property_id": prop, "tier": tier, "seed": seed, "level": level,
        "coverage": cov,
        "assumptions": list(getattr(mod, "ASSUMPTIONS", [])),
        "wall_s": round(wall, 2),
        "violations": nviol,
    }
    edir = os.path.join(OUT, "evidence")
    os.makedirs(edir, exist_ok=True)
    with open(os.path.join(edir, "%s.json" % prop), "w") as fh:
        json.dump(ev, fh, indent=1, default=repr, ensure_ascii=False)
    if tier == "thorough":
        # keep the last thorough result next to the (usually quick) main evidence file
        os.makedirs(os.path.join(edir, "thorough"), exist_ok=True)
        with open(os.path.join(edir, "thorough", "%s.json" % prop), "w") as fh:
            json.dump(ev, fh, indent=1, default=repr, ensure_ascii=False)
    print("%s %s: cases=%d/%d evals=%d nontrivial=%d outcomes=%d states=%d "
          "transitions=%d traces=%d violations=%d known=%d exhaustive=%s wall=%.1fs"
          % (prop, tier, merged.cases, ncases, merged.evals, merged.nontrivial,
             len(merged.outcomes), cov["states"], cov["transitions"], merged.traces,
             nviol, len(cov["known_finding_signatures"]), cov["exhaustive"], wall))
    env.cleanup_scratch()
    return exit_code


def replay(prop, mod, path):
    from . import env  # noqa: F401
    with open(path) as fh:
        rec = json.load(fh)
    case = rec["case"]
    r = _run_one(case)
    sigs = {}
    for sig, what, detail in r.violations:
        sigs.setdefault(sig, (what, detail))
    env.cleanup_scratch()
    want = rec.get("signature")
    print("replayed case: %s" % json.dumps(case, default=repr, ensure_ascii=False)[:2000])
    if want in sigs:
        print("REPRODUCED property=%s signature=%s\n  %s\n  detail=%s"
              % (prop, want, sigs[want][0],
                 json.dumps(sigs[want][1], default=repr, ensure_ascii=False)[:3000]))
        return 1
    if sigs:
        print("different violations observed: %s" % sorted(sigs))
        return 1
    print("not reproduced (case passes)")
    return 0


if __name__ == "__main__":
    sys.exit(main())
