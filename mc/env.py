"""Environment seams: import root, deterministic ids / clock, scratch dirs.

No source hook inside /repo is needed: the library reads its ids and its clock
through module attributes that we replace here (see DESIGN.md section 2.2).
"""
import gc
import os
import shutil
import sys
import tempfile
import uuid

SRC_ROOT = os.path.realpath(os.environ.get("NIXPY_VERIF_SRC", "/repo"))
os.environ.setdefault("NIXPY_VERIF", "1")
sys.dont_write_bytecode = True

# make sure the tree under test is the one that gets imported
if SRC_ROOT not in sys.path:
    sys.path.insert(0, SRC_ROOT)

import warnings  # noqa: E402
warnings.filterwarnings("ignore")

import numpy as np  # noqa: E402
import h5py  # noqa: E402
import nixio  # noqa: E402
import nixio.util.util as _uu  # noqa: E402
import nixio.util as _u  # noqa: E402

_here = os.path.realpath(os.path.dirname(nixio.__file__))
if not _here.startswith(SRC_ROOT + os.sep):
    sys.stderr.write("INFRA: nixio imported from %s, expected under %s\n"
                     % (_here, SRC_ROOT))
    sys.exit(2)


class IdSource:
    """Counter based, well-formed v4 UUIDs; reset per execution."""

    def __init__(self):
        self.n = 0

    def reset(self, start=0):
        self.n = start

    def __call__(self):
        self.n += 1
        return str(uuid.UUID(int=(0xabcdef0000004000a000 << 48) | self.n,
                             version=4))


class Clock:
    def __init__(self):
        self.t = 1_600_000_000

    def reset(self, t=1_600_000_000):
        self.t = t

    def advance(self, dt=1):
        self.t += dt

    def __call__(self):
        return self.t


IDS = IdSource()
CLOCK = Clock()
_ORIG = {}


def install_seams():
    if _ORIG:
        return
    _ORIG["create_id"] = _uu.create_id
    _ORIG["now_int"] = _uu.now_int
    _uu.create_id = IDS
    _u.create_id = IDS
    _uu.now_int = CLOCK
    _u.now_int = CLOCK


def uninstall_seams():
    if not _ORIG:
        return
    _uu.create_id = _ORIG["create_id"]
    _u.create_id = _ORIG["create_id"]
    _uu.now_int = _ORIG["now_int"]
    _u.now_int = _ORIG["now_int"]
    _ORIG.clear()


def reset_execution():
    IDS.reset()
    CLOCK.reset()


_SCRATCH = None
_COUNTER = [0]


def scratch_dir():
    """Private scratch directory of this process (tmpfs if available)."""
    global _SCRATCH
    if _SCRATCH is None or _SCRATCH[0] != os.getpid():
        base = "/dev/shm" if os.path.isdir("/dev/shm") and os.access("/dev/shm", os.W_OK) else None
        d = tempfile.mkdtemp(prefix="nixverif-%d-" % os.getpid(), dir=base)
        _SCRATCH = (os.getpid(), d)
    return _SCRATCH[1]


def fresh_path(tag="f"):
    _COUNTER[0] += 1
    d = scratch_dir()
    if not os.path.isdir(d):          # removed from outside while running (e.g. a clean-up of /dev/shm)
        os.makedirs(d, exist_ok=True)
    return os.path.join(d, "%s%d.nix" % (tag, _COUNTER[0]))


def cleanup_scratch():
    global _SCRATCH
    if _SCRATCH is not None and _SCRATCH[0] == os.getpid():
        shutil.rmtree(_SCRATCH[1], ignore_errors=True)
        _SCRATCH = None


def rm(path):
    try:
        os.unlink(path)
    except OSError:
        pass


def safe_close(f):
    try:
        if f is not None and f.is_open():
            f.close()
    except Exception:
        try:
            f._h5file.close()
        except Exception:
            pass
        gc.collect()
