"""Reference model of the NIX data model, in 'walk tree' form.

The model state is a tree with the same shape as walker.walk(), restricted to
the *primary* keys below (everything that is stored; derived information such
as referring lists or parents is C13's business).  Operations transform the
tree (mc/ops.py); comparison with the implementation is
canon(primary(walk(file))) == canon(model).
"""
import copy

PRIMARY = {
    "File": ["blocks", "sections"],
    "Block": ["id", "name", "type", "definition", "metadata", "data_arrays", "data_frames", "tags",
              "multi_tags", "groups", "sources"],
    "DataArray": ["id", "name", "type", "definition", "label", "unit", "expansion_origin",
                  "polynom_coefficients", "dimensions", "sources", "metadata", "dtype", "$data"],
    "DataFrame": ["id", "name", "type", "definition", "metadata", "units", "column_names", "$data"],
    "SetDimension": ["dimension_type", "index", "label", "labels", "has_link"],
    "SampledDimension": ["dimension_type", "index", "label", "unit", "offset", "sampling_interval", "has_link"],
    "RangeDimension": ["dimension_type", "index", "label", "unit", "ticks", "has_link", "is_alias"],
    "Tag": ["id", "name", "type", "definition", "position", "extent", "units", "references", "features",
            "sources", "metadata"],
    "MultiTag": ["id", "name", "type", "definition", "positions", "extents", "units", "references",
                 "features", "sources", "metadata"],
    "Feature": ["id", "link_type", "data"],
    "Group": ["id", "name", "type", "definition", "data_arrays", "data_frames", "tags", "multi_tags",
              "sources", "metadata"],
    "Source": ["id", "name", "type", "definition", "sources", "metadata"],
    "Section": ["id", "name", "type", "definition", "repository", "reference", "link", "props", "sections"],
    "Property": ["id", "name", "definition", "unit", "uncertainty", "reference", "dependency",
                 "dependency_value", "value_origin", "values", "data_type"],
}
TIMES = ("created_at", "updated_at")


def primary(tree, with_times=False):
    if isinstance(tree, dict):
        k = tree.get("$k")
        if k in PRIMARY:
            out = {"$k": k}
            for key in PRIMARY[k]:
                out[key] = primary(tree.get(key, {"$missing": True}), with_times)
            if with_times:
                for key in TIMES:
                    if key in tree:
                        out[key] = tree[key]
            return out
        return {kk: primary(v, with_times) for kk, v in tree.items()}
    if isinstance(tree, list):
        return [primary(x, with_times) for x in tree]
    return tree


class Model:
    def __init__(self, tree):
        self.t = tree
        self.n = 0

    def clone(self):
        m = Model(copy.deepcopy(self.t))
        m.n = self.n
        return m

    def new_id(self):
        self.n += 1
        return "new-%d" % self.n

    # ---------------------------------------------------------------- navigation
    def resolve(self, path):
        node = self.t
        for i in range(0, len(path), 2):
            lst = node[path[i]]
            sel = path[i + 1]
            node = pick(lst, sel)
            if node is None:
                raise KeyError(path)
        return node

    def container(self, path):
        """path with odd length: ends on a container key"""
        node = self.resolve(path[:-1])
        return node[path[-1]]

    def entities(self):
        """yield (path, node) of every entity in the tree, parents first"""
        def go(node, path):
            yield path, node
            k = node.get("$k")
            for key in OWNED.get(k, ()):
                for i, ch in enumerate(node.get(key, [])):
                    sel = ch.get("name") if "name" in ch else i
                    yield from go(ch, path + [key, sel])
        yield from go(self.t, [])

    def id_of(self, node):
        return node["id"]["$id"]

    # ---------------------------------------------------------------- delete cascade
    def owned_ids(self, node):
        ids = []

        def go(n):
            if "id" in n:
                ids.append(n["id"]["$id"])
            for key in OWNED.get(n.get("$k"), ()):
                for ch in n.get(key, []):
                    go(ch)
        go(node)
        return ids

    def purge_refs(self, ids):
        """remove every link to any of ids from everywhere in the tree"""
        ids = set(ids)
        for _path, n in list(self.entities()):
            k = n.get("$k")
            for key in LINKLISTS.get(k, ()):
                if key in n:
                    n[key] = [r for r in n[key] if r["$ref"] not in ids]
            if "metadata" in n and isinstance(n["metadata"], dict) and n["metadata"].get("$ref") in ids:
                n["metadata"] = None
            if k == "MultiTag":
                if isinstance(n["positions"], dict) and n["positions"].get("$ref") in ids:
                    n["positions"] = {"$exc": "RuntimeError"}
                if isinstance(n["extents"], dict) and n["extents"].get("$ref") in ids:
                    n["extents"] = None
            if k == "Feature":
                if isinstance(n["data"], dict) and n["data"].get("$ref") in ids:
                    n["data"] = {"$exc": "RuntimeError"}
            if k == "Section":
                if isinstance(n.get("link"), dict) and n["link"].get("$ref") in ids:
                    n["link"] = None


OWNED = {
    "File": ["blocks", "sections"],
    "Block": ["data_arrays", "data_frames", "tags", "multi_tags", "groups", "sources"],
    "DataArray": ["dimensions"],
    "Tag": ["features"],
    "MultiTag": ["features"],
    "Source": ["sources"],
    "Section": ["props", "sections"],
}
LINKLISTS = {
    "DataArray": ["sources"],
    "Tag": ["references", "sources"],
    "MultiTag": ["references", "sources"],
    "Group": ["data_arrays", "data_frames", "tags", "multi_tags", "sources"],
}


def pick(lst, sel):
    if isinstance(sel, int):
        return lst[sel] if -len(lst) <= sel < len(lst) else None
    for x in lst:
        if x.get("name") == sel:
            return x
    return None


def mkref(node):
    return {"$ref": node["id"]["$id"], "$rk": node["$k"]}
