"""Seed states for the history explorer: the empty file and a 'rich' file whose
content forces collisions (equal names in different parents, nested trees
re-using names across levels, every link kind present)."""
import numpy as np

import nixio as nix
from . import env


def open_new(path=None, mode=None, **kw):
    env.install_seams()
    path = path or env.fresh_path()
    f = nix.File.open(path, mode or nix.FileMode.Overwrite, **kw)
    return f, path


def build_light_block(f, bname):
    """second block: same names as the full block, little content"""
    b = f.create_block(bname, "blocktype")
    sig = b.create_data_array("sig", "signal", data=np.array([[1.0, 2.0], [3.0, 4.0]]), unit="mV")
    sig.append_set_dimension()
    sig.append_sampled_dimension(2, unit="ms", offset=3)
    s1 = b.create_source("src", "sourcetype")
    s11 = s1.create_source("src", "sourcetype")
    tag = b.create_tag("tag", "tagtype", [0.0, 2.0])
    tag.references.append(sig)
    tag.sources.append(s11)
    g = b.create_group("grp", "grouptype")
    g.data_arrays.append(sig)
    g.tags.append(tag)
    return b


def build_block(f, bname, with_frame=True):
    b = f.create_block(bname, "blocktype")
    # arrays: names chosen so that creation order != sorted order
    sig = b.create_data_array("sig", "signal", data=np.arange(12.0).reshape(3, 4), label="U", unit="mV")
    sig.append_set_dimension(["a", "b", "c"])
    sd = sig.append_sampled_dimension(0.5, label="time", unit="ms", offset=1.0)
    evt = b.create_data_array("evt", "events", data=np.array([0.5, 1.0, 2.5]), unit="ms")
    evt.append_range_dimension_using_self()
    pos = b.create_data_array("apos", "positions", data=np.array([[0.0, 1.0], [1.0, 1.5]]))
    pos.append_set_dimension()
    pos.append_set_dimension()
    ext = b.create_data_array("Zext", "extents", data=np.array([[1.0, 0.5], [1.0, 1.0]]))
    ext.append_set_dimension()
    ext.append_set_dimension()
    feat = b.create_data_array("feat", "feature", data=np.array([10, 20, 30], dtype=np.int32))
    feat.append_range_dimension([0.0, 1.0, 4.0], label="t", unit="s")
    txt = b.create_data_array("txt", "text", data=np.array(["x", "ÿz", ""], dtype=object), dtype=nix.DataType.String)
    txt.append_set_dimension()
    df = None
    if with_frame:
        df = b.create_data_frame("frame", "table",
                                 col_dict=dict([("n", np.int64), ("s", str), ("v", np.float64)]),
                                 data=[(1, "a", 0.5), (2, "b", 1.5)])
    # sources: nested, re-using names across levels and subtrees
    s1 = b.create_source("src", "sourcetype")
    s11 = s1.create_source("src", "sourcetype")
    s12 = s1.create_source("other", "sourcetype")
    s2 = b.create_source("other", "sourcetype")
    s21 = s2.create_source("src", "sourcetype")
    sig.sources.append(s1)
    sig.sources.append(s21)
    # tag / multi tag
    tag = b.create_tag("tag", "tagtype", [1.0, 1.5])
    tag.extent = [1.0, 1.0]
    tag.units = ["", "ms"]
    tag.references.append(sig)
    tag.sources.append(s11)
    tag.create_feature(feat, nix.LinkType.Untagged)
    tag.create_feature(evt, nix.LinkType.Tagged)
    mt = b.create_multi_tag("mtag", "mtagtype", pos)
    mt.extents = ext
    mt.references.append(sig)
    mt.create_feature(feat, nix.LinkType.Indexed)
    if df is not None:
        mt.create_feature(df, nix.LinkType.Untagged)
    mt.sources.append(s2)
    g = b.create_group("grp", "grouptype")
    g.data_arrays.append(sig)
    g.data_arrays.append(evt)
    g.tags.append(tag)
    g.multi_tags.append(mt)
    g.sources.append(s12)
    if df is not None:
        g.data_frames.append(df)
    g2 = b.create_group("Agrp", "grouptype")
    g2.data_arrays.append(sig)
    return b


def build_sections(f):
    # names re-used across subtrees and levels
    a = f.create_section("sec", "sectype")
    aa = a.create_section("sec", "sectype")
    ab = a.create_section("other", "sectype")
    aaa = aa.create_section("leaf", "sectype")
    b = f.create_section("other", "sectype")
    ba = b.create_section("sec", "sectype")
    bb = b.create_section("leaf", "sectype")
    a.create_property("pint", [1, -2, 3])
    p = a.create_property("pstr", ["x", "ÿ"])
    p.unit = "mV"
    p.definition = "def"
    aa.create_property("pflt", [0.5])
    aa.create_property("pbool", [True, False])
    ba.create_property("pint", [7])
    b.create_property("empty", nix.DataType.Double)
    a.repository = "repo"
    return a, aa, ab, b, ba, bb, aaa


def build_rich(f, frames=True):
    secs = build_sections(f)
    b1 = build_block(f, "blk", with_frame=frames)
    b2 = build_light_block(f, "Ablk")
    a, aa, ab, b, ba, bb, aaa = secs
    b1.metadata = a
    b1.data_arrays["sig"].metadata = aa
    b1.tags["tag"].metadata = aa
    b1.groups["grp"].metadata = b
    b1.sources["src"].metadata = ba
    b2.tags["tag"].metadata = a
    b2.data_arrays["sig"].metadata = ba
    return f


def build_mini(f):
    """smallest state that still has every link kind once and a name re-used across levels"""
    sec = f.create_section("sec", "sectype")
    sec.create_section("sec", "sectype")
    sec.create_property("p", [1, 2])
    b = f.create_block("blk", "blocktype")
    sig = b.create_data_array("sig", "signal", data=np.array([[1.0, 2.0], [3.0, 4.0]]), unit="mV")
    sig.append_set_dimension(["a", "b"])
    sig.append_sampled_dimension(2, unit="ms", offset=1)     # integer-valued: a later float must not be truncated
    s1 = b.create_source("src", "sourcetype")
    s1.create_source("src", "sourcetype")
    tag = b.create_tag("tag", "tagtype", [0.0, 2.0])
    tag.references.append(sig)
    tag.sources.append(s1)
    tag.create_feature(sig, nix.LinkType.Untagged)
    g = b.create_group("grp", "grouptype")
    g.data_arrays.append(sig)
    g.tags.append(tag)
    b.metadata = sec
    return f


def build_xmini(f):
    """mini + a second block; multi tags whose positions / extents are arrays of the OTHER block (the
    library does not restrict these two links to the tag's block), each also member of a group"""
    build_mini(f)
    b = f.blocks["blk"]
    a = f.create_block("Ablk", "blocktype")
    apos = a.create_data_array("pos", "positions", data=np.array([[0.0, 1.0], [1.0, 0.0]]))
    asig = a.create_data_array("sig", "signal", data=np.array([[5.0, 6.0], [7.0, 8.0]]))
    mt = b.create_multi_tag("mt", "mtagtype", apos)          # positions in the other block
    mt.extents = asig                                         # extents in the other block
    mt.references.append(b.data_arrays["sig"])
    b.groups["grp"].multi_tags.append(mt)
    amt = a.create_multi_tag("mt", "mtagtype", b.data_arrays["sig"])   # and the other way round
    amt.extents = apos                                        # own block
    ag = a.create_group("grp", "grouptype")
    ag.multi_tags.append(amt)
    ag.data_arrays.append(apos)
    return f


def add_rank9(b):
    """an array of rank 9 with nine descriptors (the next descriptor would get a two-digit number)"""
    da = b.create_data_array("nine", "signal", data=np.zeros((1,) * 9))
    for i in range(9):
        if i % 3 == 0:
            da.append_set_dimension(["l%d" % i])
        elif i % 3 == 1:
            da.append_sampled_dimension(float(i + 1), unit="ms")
        else:
            da.append_range_dimension([float(i)], unit="s")
    return da
