"""E1s: explicit-state search with state de-duplication.

The *state* of nixio is the content of the HDF5 file, so a breadth-first
search can deduplicate on it.  The search is organised in two halves:

1. `enumerate_states` runs the BFS on the reference model only: level k holds
   every canonical model state that needs k accepted operations, with ONE
   representative history each (the BFS tree).  Two histories that lead to the
   same canonical model state are merged - sound because (2) verifies on every
   transition that the file's canonical walk equals the model state, i.e. the
   merged histories demonstrably lead to the same observable file state.
   What the merge cannot see is state outside the canonical walk (HDF5
   residue such as free space or empty groups, per-handle caches): that is
   what the un-merged `sequences` mode of mc/explorer.py is for, at smaller
   depth.

2. `expand_state` (one runner case per state) rebuilds the state on the real
   implementation by replaying its representative history, closes the file and
   then fires EVERY enabled operation of the alphabet from a byte copy of that
   file, each in a freshly opened session.  Every transition is checked:
   refused/accepted as the model says, walk == model in session, complete walk
   before close == after reopen.
"""
import json
import shutil

import nixio as nix

from . import env, walker, ops as O
from . import explorer as X
from .core import jhash

ID_BASE = 500000      # ids handed out after the copy never collide with ids of the prefix


def state_key(m):
    return jhash(walker.canon(m.t), 20)


_CACHE = {}


def enumerate_states(seed, depth, cfg, cache_key=None):
    """Model-side BFS.  Returns (states, stats): states = list of {"seed", "prefix", "level"} for every
    distinct canonical model state reachable with <= depth accepted operations (REOPEN excluded: every
    expansion step reopens anyway)."""
    ck = (seed, depth, cache_key)
    if cache_key is not None and ck in _CACHE:
        return _CACHE[ck]
    m0 = X.seed_model(seed)
    seen = {state_key(m0)}
    frontier = [([], m0)]
    out = [{"seed": seed, "prefix": [], "level": 0}]
    stats = {"model_transitions": 0, "merged": 0, "refused": 0, "per_level": [1]}
    for lvl in range(1, depth + 1):
        nxt = []
        for hist, m in frontier:
            for op in O.enabled(m, cfg):
                if op[0] == "reopen":
                    continue
                m2 = m.clone()
                try:
                    O.model_apply(m2, op)
                except O.Refused:
                    stats["refused"] += 1
                    continue
                stats["model_transitions"] += 1
                k = state_key(m2)
                if k in seen:
                    stats["merged"] += 1
                    continue
                seen.add(k)
                nxt.append((hist + [op], m2))
                out.append({"seed": seed, "prefix": hist + [op], "level": lvl})
        stats["per_level"].append(len(nxt))
        frontier = nxt
    res = (out, stats)
    if cache_key is not None:
        _CACHE[ck] = res
    return res


class Attached(O.Session):
    """a session on an existing file (byte copy of a state), opened read-write"""

    def __init__(self, path, auto_ts=True):
        env.install_seams()
        self.path = path
        self.auto_ts = auto_ts
        self.f = nix.File.open(path, nix.FileMode.ReadWrite, auto_update_timestamps=auto_ts)
        self.mode = "rw"
        self.caches = {"A": {}, "B": {}}
        self.idmap = {}
        self.twin = None


def expand_state(prop, case, r, cfg, post=None, reopen_modes=("ro", "rw"), pre=None):
    """Replays case["prefix"] from case["seed"], then explores every enabled operation from a copy of
    the resulting file.  post(r, s, m_prev, m, op, tk, prev_map) as in explorer.run_history;
    pre(r, s, m) is called once per transition right after the copy is opened."""
    seed, prefix = case["seed"], case["prefix"]
    m = X.seed_model(seed)
    s = O.Session(build=X.SEEDS[seed])
    s.idmap = {}
    base = s.path
    try:
        for op in prefix:
            O.model_apply(m, op)          # prefix operations are accepted by construction
            O.impl_apply(s, op, None)
            r.transitions += 1
        rr = type(r)()
        ok, got = X.compare(prop, rr, s, m, prefix[-1] if prefix else ["seed"], "-", None, "prefix")
        if not ok:
            # the diverging transition is reported by the expansion of the parent state; keep a trace here
            r.bump("prefix_diverged")
            if not prefix:
                r.violations.extend(rr.violations)
            return
        base_map = dict(s.idmap)
        r.states.add(jhash(got))
        s.f.close()
    except BaseException:
        s.close()
        raise
    try:
        for op in O.enabled(m, cfg):
            if op[0] == "reopen":
                continue
            q = env.fresh_path("x")
            shutil.copyfile(base, q)
            env.IDS.reset(ID_BASE)
            s2 = Attached(q)
            s2.idmap = dict(base_map)
            try:
                if pre is not None:
                    pre(r, s2, m)
                tk = X.target_kind(m, op)
                m2 = m.clone()
                refused = None
                try:
                    O.model_apply(m2, op)
                except O.Refused as rf:
                    refused = rf
                exc = None
                try:
                    O.impl_apply(s2, op, None)
                except Exception as e:  # noqa
                    exc = e
                r.transitions += 1
                r.evals += 1
                if refused is not None:
                    if exc is None:
                        r.viol("%s|%s|%s|accepted-but-must-be-refused" % (prop, X.opsig(op), tk),
                               "%s was accepted, the model refuses it" % json.dumps(op, ensure_ascii=False),
                               {"prefix": prefix})
                        continue
                    r.outcomes.add("refused:" + type(exc).__name__)
                    m_after = m
                else:
                    if exc is not None:
                        r.viol("%s|%s|%s|raised-%s" % (prop, X.opsig(op), tk, type(exc).__name__),
                               "%s raised %s: %s" % (json.dumps(op, ensure_ascii=False), type(exc).__name__,
                                                     str(exc)[:150]), {"prefix": prefix})
                        continue
                    m_after = m2
                    r.outcomes.add("ok:" + X.opsig(op))
                ok, got2 = X.compare(prop, r, s2, m_after, op, tk, None, "in-session")
                if not ok:
                    continue
                if post is not None and refused is None:
                    if post(r, s2, m, m_after, op, tk, base_map) is False:
                        continue
                before = walker.walk(s2.f)
                good = True
                for mode in reopen_modes:
                    s2.reopen(mode)
                    after = walker.walk(s2.f)
                    r.transitions += 1
                    if after != before:
                        keys = walker.diff_keys(before, after)
                        r.viol("%s|%s|%s|reopen-%s-differs:%s" % (prop, X.opsig(op), tk, mode, ",".join(keys)[:160]),
                               "walk after close+reopen(%s) differs from the walk before close: %s" % (
                                   mode, "; ".join(walker.diff(before, after, limit=4))),
                               {"diff": walker.diff(before, after, limit=12), "prefix": prefix})
                        good = False
                        break
                if good:
                    r.traces += 1
                    r.nontrivial += 1 if refused is None else 0
                    r.states.add(jhash(got2))
            finally:
                s2.close()
    finally:
        env.rm(base)
