"""E1: history explorer. Enumerates ALL operation histories up to a depth bound
(using the reference model to know which operations are enabled) and executes
each on the real implementation, comparing walk and model after every step."""
import copy
import json

from . import env, seeds, walker, ops as O
from .core import R, jhash
from .model import Model, primary

SEEDS = {
    "empty": None,
    "mini": seeds.build_mini,
    "mini+autonames": lambda f: (seeds.build_mini(f), f.blocks["blk"].create_data_array("newmt-positions", "t", data=[1.0]),
                                 f.blocks["blk"].create_data_array("newmt-extents", "t", data=[2.0]), None)[-1],
    "rich": seeds.build_rich,
    "xmini": seeds.build_xmini,
    "mini+dims9": lambda f: (seeds.build_mini(f), seeds.add_rank9(f.blocks["blk"]), None)[-1],
    "richnf": lambda f: seeds.build_rich(f, frames=False),
    "block": lambda f: (seeds.build_block(f, "blk"), None)[1],
    "light": lambda f: (seeds.build_sections(f), seeds.build_light_block(f, "blk"), seeds.build_light_block(f, "Ablk"), None)[-1],
}

_SEED_MODELS = {}


def primary2(tree):
    """primary keys; attributes that a linked range dimension borrows from its array are derived"""
    t = primary(tree)

    def fix(n):
        if isinstance(n, dict):
            if n.get("$k") == "RangeDimension" and n.get("has_link"):
                for k in ("label", "unit", "ticks"):
                    n[k] = "$linked"
            for v in n.values():
                fix(v)
        elif isinstance(n, list):
            for v in n:
                fix(v)
    fix(t)
    return t


def seed_model(seed):
    """model of a seed state = primary projection of the walk of the freshly built seed"""
    if seed not in _SEED_MODELS:
        s = O.Session(build=SEEDS[seed])
        try:
            t = primary2(walker.walk(s.f, core=True))
        finally:
            s.close()
        for _p, n in Model(t).entities():
            if n.get("$k") == "DataArray":
                assert not n["polynom_coefficients"] and not n["expansion_origin"]
                n["%raw"] = n["$data"]
        _SEED_MODELS[seed] = t
    return Model(copy.deepcopy(_SEED_MODELS[seed]))


def same_entity_or_reopen(prev, op):
    """reduction used by quick tiers: after an attribute 'set', only operations on the same entity
    (last write wins) and REOPEN are explored"""
    if prev[0] != "set":
        return True
    return op[0] == "reopen" or op[1] == prev[1]


def enumerate_histories(seed, depth, cfg, cfg_last=None, follow=None):
    """all histories of length 1..depth (model-only enumeration). After a read-only reopen only
    reopen operations are enabled. cfg_last: alphabet used for the last position (may be wider)."""
    out = []

    def go(m, hist, ro):
        if len(hist) >= depth:
            return
        last = len(hist) == depth - 1
        if isinstance(cfg, list):
            c = cfg[min(len(hist), len(cfg) - 1)]
        else:
            c = cfg_last if (last and cfg_last is not None) else cfg
        for op in O.enabled(m, c):
            if ro and op[0] != "reopen":
                continue
            if follow is not None and hist and not follow(hist[-1], op):
                continue
            h2 = hist + [op]
            out.append(h2)
            if len(h2) < depth:
                m2 = m.clone()
                try:
                    O.model_apply(m2, op)
                except O.Refused:
                    continue      # refused ops do not change the state; extensions add nothing new
                go(m2, h2, op == ["reopen", "ro"] or (ro and op[0] != "reopen"))
    go(seed_model(seed), [], False)
    return out


def opsig(op):
    if op[0] == "reopen":
        return "reopen-" + op[1]
    if op[0] == "set":
        return "set.%s" % op[2]
    if op[0] in ("create", "delete", "link", "unlink"):
        extra = (".by-" + op[3]) if op[0] in ("delete", "unlink") else ""
        return "%s.%s%s" % (op[0], op[2], extra)
    if op[0] == "set_ref":
        return "set_ref.%s" % op[2]
    if op[0] in ("append_dim", "write", "pvalues", "lookup"):
        return "%s.%s" % (op[0], op[2])
    if op[0] == "delete_dims":
        return "delete_dims"
    return op[0]


def target_kind(m, op):
    try:
        if op[0] == "reopen":
            return "-"
        return m.resolve(op[1]).get("$k", "?")
    except Exception:
        return "?"


def compare(prop, r, s, m, op, tk, hist_handles, stage):
    """compare the real file with the model; returns True if equal"""
    tg, te = {}, {}
    got = walker.canon(primary2(walker.walk(s.f, core=True)), table=tg)
    exp = walker.canon(m.t, drop=("%raw",), table=te)
    if got == exp:
        back = {v: k for k, v in tg.items()}
        s.idmap = {mid: back[c] for mid, c in te.items() if c in back}   # model id -> real id
        return True, got
    keys = walker.diff_keys(exp, got)
    sig = "%s|%s|%s|%s|model-mismatch:%s" % (prop, opsig(op), tk, stage, ",".join(keys[:2])[:160])
    r.viol(sig, "after %s the file differs from the reference model: %s" % (
        json.dumps(op, ensure_ascii=False), "; ".join(walker.diff(exp, got, limit=4))),
        {"diff": walker.diff(exp, got, limit=12)})
    return False, got


def check_cached(prop, r, s, m, op, tk):
    """every handle obtained earlier (sets A and B) must show what a fresh handle shows"""
    walker.CORE[0] = True
    try:
        for hname, cache in s.caches.items():
            for key, obj in list(cache.items()):
                path = list(key)
                try:
                    m.resolve(path)
                except (KeyError, IndexError):
                    continue
                fresh = walker.walk_obj(s.resolve(path))
                held = walker.walk_obj(obj)
                r.transitions += 1
                if fresh != held:
                    keys = walker.diff_keys(fresh, held)
                    kind = fresh.get("$k")
                    r.viol("%s|%s|%s|stale-handle:%s:%s" % (prop, opsig(op), tk, kind, ",".join(keys)[:120]),
                           "a %s handle obtained earlier shows a different state than a fresh handle after %s: %s"
                           % (kind, json.dumps(op, ensure_ascii=False), "; ".join(walker.diff(fresh, held, limit=4))),
                           {"handle_set": hname, "path": path})
                    return False
    finally:
        walker.CORE[0] = False
    return True


def run_history(prop, case, r, full_reopen=True, check_handles=False, post=None):
    """case: {"seed":..., "ops":[...], "h": optional list of handle ids per op}"""
    seed, hist = case["seed"], case["ops"]
    hs = case.get("h") or [None] * len(hist)
    m = seed_model(seed)
    s = O.Session(build=SEEDS[seed], twin=bool(case.get("twin")))
    s.idmap = {}
    try:
        if post is not None:
            compare(prop, R(), s, m, ["seed"], "-", hs, "seed")
        for i, op in enumerate(hist):
            last = i == len(hist) - 1
            tk = target_kind(m, op)
            m2 = m.clone()
            refused = None
            try:
                O.model_apply(m2, op)
            except O.Refused as rf:
                refused = rf
            exc = None
            prev_map = dict(s.idmap)
            m_prev = m
            try:
                O.impl_apply(s, op, hs[i])
            except Exception as e:  # noqa
                exc = e
            r.transitions += 1
            if refused is not None:
                if exc is None:
                    if last or case.get("single"):
                        r.viol("%s|%s|%s|accepted-but-must-be-refused" % (prop, opsig(op), tk),
                               "%s was accepted, the model refuses it" % json.dumps(op, ensure_ascii=False), {})
                    return
                r.outcomes.add("refused:" + type(exc).__name__)
                # state must be unchanged (m stays)
            else:
                if exc is not None:
                    if last or case.get("single"):
                        r.viol("%s|%s|%s|raised-%s" % (prop, opsig(op), tk, type(exc).__name__),
                               "%s raised %s: %s" % (json.dumps(op, ensure_ascii=False), type(exc).__name__,
                                                     str(exc)[:150]), {})
                    return
                m = m2
                r.outcomes.add("ok:" + opsig(op))
            ok, got = compare(prop, r, s, m, op, tk, hs, "in-session")
            if ok and check_handles and s.mode == "rw":
                ok = check_cached(prop, r, s, m, op, tk)
            if not ok:
                if not last and not case.get("single"):
                    # divergence belongs to a shorter history (reported there); do not extend
                    r.violations.pop()
                    r.bump("pruned_after_earlier_violation")
                return
            if (last or case.get("single")) and post is not None and refused is None:
                if post(r, s, m_prev, m, op, tk, prev_map) is False:
                    return
        r.states.add(jhash(got))
        tw = s.twin_changed()
        if tw is not None:
            r.viol("%s|%s|%s|second-open-file-changed" % (prop, opsig(hist[-1]), tk),
                   "another file open in the same process (built from the same seed) changed while the history ran on "
                   "this file: %s" % "; ".join(tw[:4]), {"diff": tw})
            return
        # end of history: close, reopen read-only and read-write
        before = walker.walk(s.f)
        for mode in ("ro", "rw"):
            s.reopen(mode)
            after = walker.walk(s.f)
            r.transitions += 1
            if after != before:
                keys = walker.diff_keys(before, after)
                r.viol("%s|%s|%s|reopen-%s-differs:%s" % (prop, opsig(hist[-1]), tk, mode, ",".join(keys)[:160]),
                       "walk after close+reopen(%s) differs from the walk before close: %s" % (
                           mode, "; ".join(walker.diff(before, after, limit=4))),
                       {"diff": walker.diff(before, after, limit=12)})
                return
        r.traces += 1
    finally:
        s.close()


def soak_histories():
    """Long hand-written histories from the mini seed (their prefixes are NOT cases of their own: run them with
    case["single"] = True).  They cycle through create / link / change / delete / re-create under the same name /
    re-link / reopen several times, with deletions in another order than creations."""
    B = ["blocks", "blk"]
    G, T = B + ["groups", "grp"], B + ["tags", "tag"]

    def arr(n):
        return B + ["data_arrays", n]
    out = []
    h = []
    for cyc, (delmode, reop) in enumerate((("name", "rw"), ("id", "ro"), ("idx", "rw"), ("obj", "rw"))):
        h += [["create", B, "data_arrays", "n1", [[1, 2], [3, 4]], "int16"],
              ["link", G, "data_arrays", arr("n1")],
              ["link", T, "references", arr("n1")],
              ["lookup", G, "data_arrays", arr("n1")],
              ["lookup", T, "references", arr("n1")],
              ["lookup", G, "data_arrays", arr("sig")],
              ["create", B, "multi_tags", "n1", "n1"],
              ["set", arr("n1"), "label", "cycle%d" % cyc],
              ["create_feature", T, "n1", "Indexed"],
              ["link", B + ["multi_tags", "n1"], "references", arr("sig")],
              ["set_ref", B + ["multi_tags", "n1"], "extents", "n1"]]
        if reop == "ro":
            h += [["reopen", "ro"], ["reopen", "rw"]]
        else:
            h += [["reopen", "rw"]]
        # the array goes first (cascade through group, tag, feature, multi tag positions and extents), then the multi tag
        sel = "n1" if delmode != "idx" else 1
        h += [["delete", B, "data_arrays", delmode, sel],
              ["delete", B, "multi_tags", "name", "n1"],
              ["delete", T, "features", "idx", 1]]
    out.append(h)
    # sources and sections: a subtree deleted and rebuilt three times, linked from the same lists each time
    h = []
    S1 = B + ["sources", "src"]
    for cyc in range(3):
        h += [["create", S1, "sources", "n1"],
              ["create", S1 + ["sources", "n1"], "sources", "n1"],
              ["link", G, "sources", S1 + ["sources", "n1", "sources", "n1"]],
              ["link", T, "sources", S1 + ["sources", "n1"]],
              ["lookup", T, "sources", S1 + ["sources", "n1"]],
              ["lookup", T, "sources", S1],
              ["set_meta", S1 + ["sources", "n1"], ["sections", "sec", "sections", "sec"]],
              ["create", ["sections", "sec", "sections", "sec"], "props", "n1", [1, 2]],
              ["pvalues", ["sections", "sec", "sections", "sec", "props", "n1"], "extend", [5]],
              ["reopen", "rw"],
              ["delete", S1, "sources", "name", "n1"],
              ["delete", ["sections", "sec", "sections", "sec"], "props", "name", "n1"],
              ["unlink", G, "data_arrays", "idx", 0],
              ["link", G, "data_arrays", arr("sig")]]
    out.append(h)
    # no reopen at all: the same handles live through three generations of the entity called "n1"
    h = []
    for cyc in range(3):
        h += [["create", B, "data_arrays", "n1", [[1, 2], [3, 4]], "int16"],
              ["link", G, "data_arrays", arr("n1")],
              ["link", T, "references", arr("n1")],
              ["lookup", G, "data_arrays", arr("n1")],
              ["lookup", T, "references", arr("n1")],
              ["create", S1, "sources", "n1"],
              ["link", G, "sources", S1 + ["sources", "n1"]],
              ["lookup", G, "sources", S1 + ["sources", "n1"]],
              ["create_feature", T, "n1", "Untagged"],
              ["set", arr("n1"), "label", "generation%d" % cyc],
              ["delete", B, "data_arrays", "name", "n1"],
              ["delete", S1, "sources", "name", "n1"],
              ["delete", T, "features", "idx", 1],
              ["lookup", G, "data_arrays", arr("sig")]]
    out.append(h)
    # dimension descriptors appended, all deleted, a refused append, valid appends again - three times over
    h = []
    for cyc in range(3):
        h += [["append_dim", arr("sig"), "set", ["p", "q"]],
              ["delete_dims", arr("sig")],
              ["append_dim", arr("sig"), "set", [1, 2]],                 # refused (labels are not strings)
              ["append_dim", arr("sig"), "sampled", 0.5, "ms", 1.5],
              ["append_dim", arr("sig"), "range", [3.0, 1.0], "s"],       # refused (ticks descend)
              ["append_dim", arr("sig"), "range", [1.0, 2.0, 4.0], "s"],
              ["set", arr("sig") + ["dimensions", 0], "label", "gen%d" % cyc],
              ["delete_dims", arr("sig")]]
    h += [["append_dim", arr("sig"), "set", ["a", "b"]], ["append_dim", arr("sig"), "sampled", 2, None, None]]
    out.append(h)
    # a parent (block / source / section) with a child of the same name is deleted as a whole and built again, then
    # only the CHILD is deleted; an unrelated deletion comes first; no reopen
    h = []
    SS = ["sections", "sec", "sections", "sec"]
    NB = ["blocks", "n1"]
    for cyc in range(2):
        h += [["create", [], "blocks", "n1"],
              ["create", NB, "data_arrays", "n1", [[1, 2], [3, 4]], "int16"],
              ["create", NB, "sources", "n1"],
              ["create", NB + ["sources", "n1"], "sources", "n1"],
              ["create", S1, "sources", "n1"],
              ["create", S1 + ["sources", "n1"], "sources", "n1"],
              ["create", SS, "sections", "n1"],
              ["create", SS + ["sections", "n1"], "sections", "n1"],
              ["create", B, "data_arrays", "n2", [[1, 2], [3, 4]], "int16"],
              ["delete", B, "data_arrays", "name", "n2"],                      # unrelated
              ["delete", [], "blocks", "name", "n1"],
              ["delete", S1, "sources", "name", "n1"],
              ["delete", SS, "sections", "name", "n1"],
              ["create", [], "blocks", "n1"],
              ["create", NB, "data_arrays", "n1", [[1, 2], [3, 4]], "int16"],
              ["create", NB, "sources", "n1"],
              ["create", NB + ["sources", "n1"], "sources", "n1"],
              ["create", S1, "sources", "n1"],
              ["create", S1 + ["sources", "n1"], "sources", "n1"],
              ["create", SS, "sections", "n1"],
              ["create", SS + ["sections", "n1"], "sections", "n1"],
              ["link", G, "sources", S1 + ["sources", "n1", "sources", "n1"]],
              ["set_meta", arr("sig"), SS + ["sections", "n1", "sections", "n1"]],
              ["delete", S1 + ["sources", "n1"], "sources", "name", "n1"],     # the children only
              ["delete", SS + ["sections", "n1"], "sections", "name", "n1"],
              ["delete", NB, "data_arrays", "name", "n1"],
              ["delete", NB + ["sources", "n1"], "sources", "name", "n1"],
              ["delete", [], "blocks", "name", "n1"],
              ["delete", S1, "sources", "name", "n1"],
              ["delete", SS, "sections", "name", "n1"]]
    out.append(h)
    # member lists emptied and refilled in another order, addressed by index each time; no reopen
    h = [["create", B, "data_arrays", "n%d" % i, [[1, 2], [3, 4]], "int16"] for i in (1, 2, 3)]
    h += [["unlink", G, "data_arrays", "idx", 0]]
    for perm in ((1, 2, 3), (2, 1, 3), (1, 2, 3), (3, 2, 1), (2, 3, 1)):
        h += [["link", G, "data_arrays", arr("n%d" % i)] for i in perm]
        h += [["link", T, "references", arr("n%d" % i)] for i in perm]
        h += [["lookup", G, "data_arrays", arr("n%d" % perm[1])]]
        # one member goes by index (the first), the others by name: the list is empty afterwards
        h += [["unlink", G, "data_arrays", "idx", 0], ["unlink", G, "data_arrays", "name", "n%d" % perm[2]],
              ["unlink", G, "data_arrays", "name", "n%d" % perm[1]]]
        h += [["unlink", T, "references", "idx", 1], ["unlink", T, "references", "name", "n%d" % perm[1]],
              ["unlink", T, "references", "idx", 1]]                      # position 0 is "sig"
    # the same with entities: the sources below one source
    for perm in ((1, 2, 3), (2, 1, 3), (1, 2, 3), (3, 1, 2)):
        h += [["create", S1 + ["sources", "src"], "sources", "n%d" % i] for i in perm]
        h += [["delete", S1 + ["sources", "src"], "sources", "idx", 0],
              ["delete", S1 + ["sources", "src"], "sources", "name", "n%d" % perm[2]],
              ["delete", S1 + ["sources", "src"], "sources", "name", "n%d" % perm[1]]]
    out.append(h)
    # refused calls in the middle: the last feature / reference / member goes, a call with an array of ANOTHER block is
    # refused, a valid call follows; three times over, no reopen
    NB = ["blocks", "n1"]
    h = [["create", [], "blocks", "n1"],
         ["create", NB, "data_arrays", "n1", [[1, 2], [3, 4]], "int16"],
         ["create", NB, "data_arrays", "sig", [[1, 2], [3, 4]], "int16"],
         ["create", B, "multi_tags", "n1", "sig"]]
    M1 = B + ["multi_tags", "n1"]
    for cyc in range(3):
        h += [["delete", T, "features", "idx", 0],
              ["create_feature", T, NB + ["data_arrays", "sig"], "Tagged"],           # refused
              ["create_feature", T, arr("sig"), "Indexed"],
              ["unlink", T, "references", "idx", 0],
              ["link", T, "references", NB + ["data_arrays", "sig"]],                 # refused
              ["link", T, "references", arr("sig")],
              ["unlink", G, "data_arrays", "idx", 0],
              ["link", G, "data_arrays", NB + ["data_arrays", "n1"]],                 # refused
              ["link", G, "data_arrays", arr("sig")],
              ["create_feature", M1, NB + ["data_arrays", "n1"], "Untagged"],         # refused, the multi tag never had one
              ["create_feature", M1, arr("sig"), "Untagged"],
              ["delete", M1, "features", "idx", 0],
              ["set", arr("sig"), "label", "round%d" % cyc]]
    out.append(h)
    return out


def soak_two_handles():
    """one history with an explicit handle set per operation: an entity linked through handle set A is deleted through
    handle set B, re-created, and linked through A again (and the other way round)"""
    B = ["blocks", "blk"]
    G, T = B + ["groups", "grp"], B + ["tags", "tag"]
    n1 = B + ["data_arrays", "n1"]
    ops, hs = [], []

    def add(op, h):
        ops.append(op)
        hs.append(h)
    for first, second in (("A", "B"), ("B", "A"), ("A", "B")):
        add(["create", B, "data_arrays", "n1", [[1, 2], [3, 4]], "int16"], first)
        add(["link", T, "references", n1], first)
        add(["link", G, "data_arrays", n1], first)
        add(["lookup", T, "references", n1], first)
        add(["delete", B, "data_arrays", "name", "n1"], second)
        add(["create", B, "data_arrays", "n1", [[1, 2], [3, 4]], "int16"], second)
        add(["link", T, "references", n1], first)
        add(["link", G, "data_arrays", n1], first)
        add(["create_feature", T, "n1", "Untagged"], first)
        add(["lookup", G, "data_arrays", n1], first)
        add(["lookup", T, "references", n1], second)
        add(["delete", B, "data_arrays", "name", "n1"], first)
        add(["delete", T, "features", "idx", 1], second)
    return ops, hs
