"""HDF5-level scans (oracle side only; the library under test is not involved)."""
import h5py


def entity_ids(h5file):
    """every entity_id attribute reachable through any link of the file -> list of paths"""
    found = {}

    def visit(name, obj):
        eid = obj.attrs.get("entity_id")
        if eid is not None:
            if isinstance(eid, bytes):
                eid = eid.decode()
            found.setdefault(str(eid), []).append(name)
    h5file.visititems(visit)
    return found


def digest(h5file):
    """Structural dump of the whole HDF5 file: for every group its links in iteration order, for every
    object its attributes and (for datasets) dtype, shape and content hash. Objects reachable through
    several links are dumped once and referenced afterwards."""
    import hashlib
    import numpy as np
    seen = {}
    out = []

    def attrs_of(obj):
        res = []
        for k in sorted(obj.attrs.keys()):
            v = obj.attrs[k]
            if isinstance(v, np.ndarray):
                v = v.tolist()
            res.append((k, repr(v)))
        return res

    def go(grp, path):
        for name in grp:
            p = path + "/" + name
            try:
                obj = grp[name]
            except Exception as e:  # noqa
                out.append((p, "dangling", type(e).__name__))
                continue
            key = obj.id
            if key in seen:
                out.append((p, "link-to", seen[key]))
                continue
            seen[key] = p
            if isinstance(obj, h5py.Group):
                if len(obj) == 0 and len(obj.attrs) == 0:
                    # an empty, attribute-less container group holds no entity, attribute, data or link and
                    # cannot be observed through the API: its presence/absence is not part of the state
                    continue
                out.append((p, "group", attrs_of(obj)))
                go(obj, p)
            else:
                try:
                    data = obj[()]
                    if isinstance(data, np.ndarray):
                        if data.dtype == object or data.dtype.fields:
                            h = hashlib.sha1(repr(data.tolist()).encode("utf-8", "replace")).hexdigest()[:12]
                        else:
                            h = hashlib.sha1(np.ascontiguousarray(data).tobytes()).hexdigest()[:12]
                    else:
                        h = repr(data)
                except Exception as e:  # noqa
                    h = "unreadable-" + type(e).__name__
                out.append((p, "dataset", str(obj.dtype), tuple(obj.shape), h, attrs_of(obj)))
    out.append(("/", "root", attrs_of(h5file)))
    go(h5file, "")
    return out


def digest_diff(a, b, limit=6):
    da = {x[0]: x for x in a}
    db = {x[0]: x for x in b}
    res = []
    for k in da:
        if k not in db:
            res.append("removed " + k)
        elif da[k] != db[k]:
            res.append("changed %s: %r -> %r" % (k, da[k][1:], db[k][1:]))
    for k in db:
        if k not in da:
            res.append("added " + k)
    if not res and [x[0] for x in a] != [x[0] for x in b]:
        res.append("link order changed")
    return res[:limit]
