"""HDF5-level scans (oracle side only; the library under test is not involved)."""
import h5py


def entity_ids(h5file):
    """every entity_id attribute reachable through any link of the file -> list of paths"""
    found = {}

    def visit(name, obj):
        eid = obj.attrs.get("entity_id")
        if eid is not None:
            if isinstance(eid, bytes):
                eid = eid.decode()
            found.setdefault(str(eid), []).append(name)
    h5file.visititems(visit)
    return found
