"""Operation alphabet: every op is a JSON list [kind, path, args...] that can be
applied to the real file (impl_apply) and to the reference model (model_apply).

Paths alternate container key / selector (name or index), e.g.
["blocks", "blk", "data_arrays", "sig", "dimensions", 0].
"""
import numpy as np

import nixio as nix
from nixio.exceptions import DuplicateName
from . import env
from .model import Model, pick, mkref, OWNED, LINKLISTS


class LookupMismatch(Exception):
    """raised by the read-only 'lookup' operation when a by-name look-up disagrees with the linked entity"""


class Refused(Exception):
    """the model says this call must be refused (exception class names allowed)"""

    def __init__(self, *allowed):
        Exception.__init__(self, "refused")
        self.allowed = allowed


# ---------------------------------------------------------------- session on the real file

class Session:
    def __init__(self, path=None, build=None, auto_ts=True, twin=False):
        env.install_seams()
        env.reset_execution()
        # twin: a second file built from the same seed (same names and HDF5 paths, other ids) that stays
        # open in this process; it must read unchanged at the end (state kept outside the File objects)
        self.twin = None
        if twin:
            from . import walker
            tp = env.fresh_path("twin")
            tf = nix.File.open(tp, nix.FileMode.Overwrite, auto_update_timestamps=auto_ts)
            if build is not None:
                build(tf)
            self.twin = (tp, tf, walker.walk(tf, core=True))
        self.path = path or env.fresh_path("s")
        self.auto_ts = auto_ts
        self.f = nix.File.open(self.path, nix.FileMode.Overwrite, auto_update_timestamps=auto_ts)
        self.mode = "rw"
        self.caches = {"A": {}, "B": {}}
        if build is not None:
            build(self.f)

    def reopen(self, mode):
        self.f.close()
        self.caches = {"A": {}, "B": {}}
        self.f = nix.File.open(self.path, nix.FileMode.ReadOnly if mode == "ro" else nix.FileMode.ReadWrite,
                               auto_update_timestamps=self.auto_ts)
        self.mode = mode

    def twin_changed(self):
        """None if there is no twin or it still reads as built; else a list of differing keys"""
        if getattr(self, "twin", None) is None:
            return None
        from . import walker
        now = walker.walk(self.twin[1], core=True)
        if now == self.twin[2]:
            return None
        return walker.diff(self.twin[2], now, limit=6)

    def close(self, remove=True):
        env.safe_close(self.f)
        if getattr(self, "twin", None) is not None:
            env.safe_close(self.twin[1])
            env.rm(self.twin[0])
            self.twin = None
        if remove:
            env.rm(self.path)

    def resolve(self, path, h=None):
        """h None: fresh handles from the file root; 'A'/'B': cached handle sets"""
        if h is None:
            obj = self.f
            for i in range(0, len(path), 2):
                obj = getattr(obj, path[i])[path[i + 1]]
            return obj
        cache = self.caches[h]
        key = tuple(path)
        if key in cache:
            return cache[key]
        if not path:
            return self.f
        parent = self.resolve(path[:-2], h)
        obj = getattr(parent, path[-2])[path[-1]]
        cache[key] = obj
        return obj

    def forget(self, path):
        key = tuple(path)
        for c in self.caches.values():
            for k in [k for k in c if k[:len(key)] == key]:
                del c[k]


def exc_name(exc):
    return type(exc).__name__


# ---------------------------------------------------------------- value domains

STRS = [None, "", "v", "ünï"]


def san_unit(u):
    if u:
        u = u.replace(" ", "").replace("mu", "u").replace("µ", "u").replace("μ", "u")
    if u == "":
        u = None
    return u


def enc_f8(vals):
    return [float(v) for v in vals]


def arr_tree(a):
    from .walker import enc_array
    return enc_array(np.asarray(a))


# ---------------------------------------------------------------- templates of fresh entities

def t_block(m, name, type_):
    return {"$k": "Block", "id": {"$id": m.new_id()}, "name": name, "type": type_, "definition": None,
            "metadata": None, "data_arrays": [], "data_frames": [], "tags": [], "multi_tags": [],
            "groups": [], "sources": []}


def calibrated(raw, coeff, origin):
    """reference: Horner evaluation in float64 of (raw - origin); no calibration -> raw"""
    if not coeff and not origin:
        return raw
    x = raw.astype(np.float64) - (origin or 0.0)
    if not coeff:
        return x
    y = np.zeros_like(x)
    for c in reversed(list(coeff)):
        y = y * x + c
    return y


def recalc(node):
    raw = tree_arr(node["%raw"])
    node["$data"] = arr_tree(calibrated(raw, node["polynom_coefficients"], node["expansion_origin"]))


def t_array(m, name, type_, data, label=None, unit=None):
    a = np.asarray(data)
    return {"%raw": arr_tree(a),"$k": "DataArray", "id": {"$id": m.new_id()}, "name": name, "type": type_, "definition": None,
            "label": label, "unit": san_unit(unit), "expansion_origin": None, "polynom_coefficients": [],
            "dimensions": [], "sources": [], "metadata": None, "dtype": {"$dtype": str(a.dtype)},
            "$data": arr_tree(a)}


def t_tag(m, name, type_, position):
    return {"$k": "Tag", "id": {"$id": m.new_id()}, "name": name, "type": type_, "definition": None,
            "position": enc_f8(position), "extent": [], "units": [], "references": [], "features": [],
            "sources": [], "metadata": None}


def t_mtag(m, name, type_, posref):
    return {"$k": "MultiTag", "id": {"$id": m.new_id()}, "name": name, "type": type_, "definition": None,
            "positions": posref, "extents": None, "units": [], "references": [], "features": [],
            "sources": [], "metadata": None}


def t_group(m, name, type_):
    return {"$k": "Group", "id": {"$id": m.new_id()}, "name": name, "type": type_, "definition": None,
            "data_arrays": [], "data_frames": [], "tags": [], "multi_tags": [], "sources": [],
            "metadata": None}


def t_source(m, name, type_):
    return {"$k": "Source", "id": {"$id": m.new_id()}, "name": name, "type": type_, "definition": None,
            "sources": [], "metadata": None}


def t_section(m, name, type_):
    return {"$k": "Section", "id": {"$id": m.new_id()}, "name": name, "type": type_, "definition": None,
            "repository": None, "reference": None, "link": None, "props": [], "sections": []}


def pdtype(v):
    if isinstance(v, bool):
        return "bool"
    if isinstance(v, int):
        return "int64"
    if isinstance(v, float):
        return "float64"
    return "str"


def dt_tree(name):
    if name == "str":
        return {"$type": "str_"}
    return {"$dtype": name}


def t_prop(m, name, values):
    return {"$k": "Property", "id": {"$id": m.new_id()}, "name": name, "definition": None, "unit": None,
            "uncertainty": None, "reference": None, "dependency": None, "dependency_value": None,
            "value_origin": None, "values": list(values), "data_type": dt_tree(pdtype(values[0]))}


def t_feature(m, dataref, link_type):
    return {"$k": "Feature", "id": {"$id": m.new_id()}, "link_type": "LinkType." + link_type, "data": dataref}


LT = {"Tagged": nix.LinkType.Tagged, "Untagged": nix.LinkType.Untagged, "Indexed": nix.LinkType.Indexed}

CREATORS = {
    # container key -> (parent kinds, impl create, template)
    "blocks": lambda p, n: p.create_block(n, "t"),
    "sections": lambda p, n: p.create_section(n, "t"),
    "groups": lambda p, n: p.create_group(n, "t"),
    "sources": lambda p, n: p.create_source(n, "t"),
}


# ---------------------------------------------------------------- apply to the implementation

def impl_apply(s, op, h=None):
    """Execute op on the real file. Returns None; raises whatever the library raises."""
    kind = op[0]
    if kind == "reopen":
        s.reopen(op[1])
        return
    path = op[1]
    if kind == "create":
        ckey, name = op[2], op[3]
        parent = s.resolve(path, h)
        if ckey in CREATORS:
            CREATORS[ckey](parent, name)
        elif ckey == "data_arrays":
            parent.create_data_array(name, "t", data=np.array(op[4], dtype=op[5]))
        elif ckey == "tags":
            parent.create_tag(name, "t", op[4])
        elif ckey == "multi_tags":
            if isinstance(op[4], dict):
                # positions (and extents) given as plain values: the library creates "<name>-positions" /
                # "<name>-extents" arrays on the way
                parent.create_multi_tag(name, "t", op[4]["positions"], extents=op[4].get("extents"))
            else:
                parent.create_multi_tag(name, "t", parent.data_arrays[op[4]])
        elif ckey == "props":
            parent.create_property(name, op[4])
        else:
            raise ValueError(ckey)
    elif kind == "create_feature":
        tag = s.resolve(path, h)
        blk = s.resolve(path[:2], h)
        if isinstance(op[2], list):                  # an array addressed by path (possibly of another block)
            tag.create_feature(s.resolve(op[2], None), LT[op[3]])
        else:
            tag.create_feature(blk.data_arrays[op[2]], LT[op[3]])
    elif kind == "append_dim":
        da = s.resolve(path, h)
        if op[2] == "set":
            da.append_set_dimension(op[3])
        elif op[2] == "sampled":
            da.append_sampled_dimension(op[3], unit=op[4], offset=op[5])
        elif op[2] == "range":
            da.append_range_dimension(op[3], unit=op[4])
    elif kind == "delete_dims":
        s.resolve(path, h).delete_dimensions()
        for c in s.caches.values():                 # handles of the deleted descriptors are not governed
            for k in [k for k in c if k[:len(path) + 1] == tuple(path) + ("dimensions",)]:
                del c[k]
    elif kind == "set":
        obj = s.resolve(path, h)
        val = op[3]
        setattr(obj, op[2], val)
    elif kind == "set_meta":
        obj = s.resolve(path, h)
        if op[2] is None:
            del obj.metadata
        else:
            obj.metadata = s.resolve(op[2], h)
    elif kind == "set_link":
        s.resolve(path, h).link = s.resolve(op[2], h)
    elif kind == "set_ref":   # multi tag positions/extents, feature data
        obj = s.resolve(path, h)
        blk = s.resolve(path[:2], h)
        if isinstance(op[3], list):        # array of another block, given by its path
            tgt = s.resolve(op[3], h)
        else:
            tgt = None if op[3] is None else blk.data_arrays[op[3]]
        setattr(obj, op[2], tgt)
    elif kind == "link":
        obj = s.resolve(path, h)
        tgt = s.resolve(op[3], h)
        getattr(obj, op[2]).append(tgt)
    elif kind == "unlink":
        obj = s.resolve(path, h)
        cont = getattr(obj, op[2])
        how, sel = op[3], op[4]
        if how == "obj":
            sel = cont[sel]
        del cont[sel]
    elif kind == "delete":
        parent = s.resolve(path, h)
        cont = getattr(parent, op[2])
        how, sel = op[3], op[4]
        if how == "obj":
            sel = cont[sel]
        elif how == "id":
            sel = cont[sel].id
        elif how == "data-name":
            sel = cont[sel].data.name
        elif how == "data-id":
            sel = cont[sel].data.id
        del cont[sel]
        # handles of the deleted member are not governed any more; deleted by position: every member of that
        # container is forgotten (the handle of the PARENT is kept: it must keep working)
        s.forget(path + [op[2], op[4]] if not isinstance(op[4], int) else path + [op[2]])
    elif kind == "write":
        da = s.resolve(path, h)
        if op[2] == "all":
            da[:] = np.array(op[3], dtype=da.dtype)
        elif op[2] == "elem":
            da[tuple(op[3])] = op[4]
        elif op[2] == "append":
            da.append(np.array(op[3], dtype=da.dtype), axis=op[4])
    elif kind == "lookup":
        # read-only: a member of a link list / container addressed by NAME through the (possibly long-held) handle
        cont = getattr(s.resolve(path, h), op[2])
        tgt = s.resolve(op[3], None)
        nm = tgt.name
        got = cont[nm]
        if got.id != tgt.id or nm not in cont or tgt.id not in cont:
            raise LookupMismatch("%s[%r] through a held handle gives id %r, the linked entity has %r (name in: %r, id in: %r)" % (
                op[2], nm, got.id, tgt.id, nm in cont, tgt.id in cont))
    elif kind == "pvalues":
        p = s.resolve(path, h)
        if op[2] == "set":
            p.values = op[3]
        elif op[2] == "extend":
            p.extend_values(op[3])
        elif op[2] == "clear":
            p.delete_values()
    else:
        raise ValueError("unknown op %r" % (op,))


# ---------------------------------------------------------------- apply to the model

def model_apply(m, op):
    """Transform the model tree; raise Refused if the call must be refused."""
    kind = op[0]
    if kind == "reopen":
        return
    path = op[1]
    if kind == "create":
        ckey, name = op[2], op[3]
        parent = m.resolve(path)
        lst = parent[ckey]
        if pick(lst, name) is not None:
            raise Refused("DuplicateName")
        if ckey == "blocks":
            lst.append(t_block(m, name, "t"))
        elif ckey == "sections":
            lst.append(t_section(m, name, "t"))
        elif ckey == "groups":
            lst.append(t_group(m, name, "t"))
        elif ckey == "sources":
            lst.append(t_source(m, name, "t"))
        elif ckey == "data_arrays":
            lst.append(t_array(m, name, "t", np.array(op[4], dtype=op[5])))
        elif ckey == "tags":
            lst.append(t_tag(m, name, "t", op[4]))
        elif ckey == "multi_tags":
            if isinstance(op[4], dict):
                autos = [("positions", op[4]["positions"])] + ([("extents", op[4]["extents"])] if op[4].get("extents") is not None else [])
                for role, _v in autos:
                    if pick(parent["data_arrays"], "%s-%s" % (name, role)) is not None:
                        raise Refused("DuplicateName")
                made = {}
                for role, vals in autos:
                    a = t_array(m, "%s-%s" % (name, role), "t-%s" % role, np.array(vals, dtype=np.float64))
                    parent["data_arrays"].append(a)
                    made[role] = a
                mt = t_mtag(m, name, "t", mkref(made["positions"]))
                if "extents" in made:
                    mt["extents"] = mkref(made["extents"])
                lst.append(mt)
            else:
                lst.append(t_mtag(m, name, "t", mkref(pick(parent["data_arrays"], op[4]))))
        elif ckey == "props":
            lst.append(t_prop(m, name, op[4]))
    elif kind == "create_feature":
        tag = m.resolve(path)
        blk = m.resolve(path[:2])
        if isinstance(op[2], list):
            if op[2][:2] != path[:2]:
                raise Refused("RuntimeError", "ValueError", "KeyError")    # data of a feature lives in the tag's block
            tag["features"].append(t_feature(m, mkref(m.resolve(op[2])), op[3]))
        else:
            tag["features"].append(t_feature(m, mkref(pick(blk["data_arrays"], op[2])), op[3]))
    elif kind == "delete_dims":
        m.resolve(path)["dimensions"] = []
    elif kind == "append_dim":
        da = m.resolve(path)
        idx = len(da["dimensions"]) + 1
        if op[2] == "set" and op[3] and not all(isinstance(x, str) for x in op[3]):
            raise Refused("TypeError", "ValueError")          # labels must be strings
        if op[2] == "range" and op[3] and any(b < a for a, b in zip(op[3], op[3][1:])):
            raise Refused("ValueError")                        # ticks must ascend
        if op[2] == "set":
            da["dimensions"].append({"$k": "SetDimension", "dimension_type": "DimensionType.Set", "index": idx,
                                     "label": None, "labels": list(op[3] or []), "has_link": False})
        elif op[2] == "sampled":
            da["dimensions"].append({"$k": "SampledDimension", "dimension_type": "DimensionType.Sample",
                                     "index": idx, "label": None, "unit": op[4] or None,
                                     "offset": op[5] if op[5] else None,
                                     "sampling_interval": op[3], "has_link": False})
        elif op[2] == "range":
            da["dimensions"].append({"$k": "RangeDimension", "dimension_type": "DimensionType.Range",
                                     "index": idx, "label": None, "unit": op[4],
                                     "ticks": enc_f8(op[3] or []), "has_link": False, "is_alias": False})
    elif kind == "set":
        obj = m.resolve(path)
        obj[op[2]] = model_set_value(obj, op[2], op[3], m)
        if obj["$k"] == "DataArray" and op[2] in ("polynom_coefficients", "expansion_origin"):
            recalc(obj)
    elif kind == "set_meta":
        obj = m.resolve(path)
        obj["metadata"] = None if op[2] is None else mkref(m.resolve(op[2]))
    elif kind == "set_link":
        m.resolve(path)["link"] = mkref(m.resolve(op[2]))
    elif kind == "set_ref":
        obj = m.resolve(path)
        blk = m.resolve(path[:2])
        if op[3] is None:
            if op[2] == "extents":
                if obj["extents"] is None:
                    raise Refused("KeyError")
                obj["extents"] = None
            else:
                raise Refused("TypeError")
        elif isinstance(op[3], list):
            obj[op[2]] = mkref(m.resolve(op[3]))
        else:
            obj[op[2]] = mkref(pick(blk["data_arrays"], op[3]))
    elif kind == "link":
        obj = m.resolve(path)
        tgt = m.resolve(op[3])
        lst = obj[op[2]]
        if path and path[0] == "blocks" and list(op[3][:2]) != list(path[:2]):
            raise Refused("RuntimeError", "ValueError", "KeyError")    # member lists take entities of the own block only
        r = mkref(tgt)
        # linking the same entity again re-creates the link (moves to the end in creation order)
        lst[:] = [x for x in lst if x["$ref"] != r["$ref"]]
        lst.append(r)
    elif kind == "unlink":
        obj = m.resolve(path)
        lst = obj[op[2]]
        i = model_find_link(m, lst, op[3], op[4])
        if i is None:
            raise Refused("KeyError", "IndexError")
        del lst[i]
    elif kind == "delete":
        parent = m.resolve(path)
        lst = parent[op[2]]
        how, sel = op[3], op[4]
        node = pick(lst, sel)
        if node is None:
            raise Refused("KeyError", "IndexError")
        ids = m.owned_ids(node)
        lst.remove(node)
        m.purge_refs(ids)
        if op[2] == "dimensions":
            raise ValueError("dimensions cannot be deleted one by one")
    elif kind == "write":
        da = m.resolve(path)
        a = tree_arr(da["%raw"])
        if op[2] == "all":
            a[...] = np.array(op[3], dtype=a.dtype)
        elif op[2] == "elem":
            a[tuple(op[3])] = op[4]
        elif op[2] == "append":
            a = np.concatenate([a, np.array(op[3], dtype=a.dtype)], axis=op[4])
        da["%raw"] = arr_tree(a)
        recalc(da)
    elif kind == "lookup":
        obj = m.resolve(path)
        tgt = m.resolve(op[3])
        if not any(r_["$ref"] == tgt["id"]["$id"] for r_ in obj[op[2]]):
            raise ValueError("lookup of an entity that is not linked: %r" % (op,))
    elif kind == "pvalues":
        p = m.resolve(path)
        if op[2] == "set":
            p["values"] = list(op[3])
        elif op[2] == "extend":
            p["values"] = p["values"] + list(op[3])
        elif op[2] == "clear":
            p["values"] = []
    else:
        raise ValueError("unknown op %r" % (op,))


def tree_arr(t):
    if t["$arr"] == "str":
        return np.array(t["v"], dtype=object).reshape(t["shape"])
    return np.frombuffer(bytes.fromhex(t["b"]), dtype=t["$arr"]).reshape(t["shape"]).copy()


def model_find_link(m, lst, how, sel):
    if how == "idx":
        return sel if -len(lst) <= sel < len(lst) else None
    # by name: need the entity with that id
    byid = {}
    for _p, n in m.entities():
        if "id" in n:
            byid[n["id"]["$id"]] = n
    for i, r in enumerate(lst):
        n = byid.get(r["$ref"])
        if n is not None and n.get("name") == sel:
            return i
    return None


def model_set_value(obj, attr, val, m):
    k = obj["$k"]
    if attr == "type":
        if val is None:
            raise Refused("AttributeError")
        return val
    if attr == "unit" and k in ("DataArray", "Property"):
        return san_unit(val)
    if attr in ("position", "extent"):
        if val is None or len(val) == 0:
            return []
        return enc_f8(val)
    if attr == "units":
        if not val:
            return []
        return [san_unit(u) if u else u for u in val]
    if attr == "polynom_coefficients":
        return enc_f8(val) if val else []
    if attr == "uncertainty":
        return None if val is None else float(val)
    if attr == "link_type":
        return "LinkType." + val.capitalize() if isinstance(val, str) else val
    if attr == "ticks":
        return enc_f8(val)
    if attr == "labels":
        return list(val)
    if attr == "unit" and k == "RangeDimension" and obj.get("has_link"):
        raise ValueError("linked range dimensions are handled in C05")
    return val


# ---------------------------------------------------------------- enabled operations

def _dedupe_links(m, ops):
    out = []
    for op in ops:
        if op[0] == "link":
            try:
                obj = m.resolve(op[1])
                tid = m.resolve(op[3])["id"]["$id"]
                if any(r["$ref"] == tid for r in obj[op[2]]):
                    continue
            except KeyError:
                pass
        out.append(op)
    return out


def enabled(m, cfg):
    ops = _dedupe_links(m, _enabled(m, cfg))
    only = cfg.get("only")
    if only is not None:
        ops = [op for op in ops if op[0] in only]
    pred = cfg.get("pred")
    if pred is not None:
        ops = [op for op in ops if pred(op)]
    return ops


def _enabled(m, cfg):
    """Enumerate the operations of the alphabet that are applicable in model state m.
    cfg: dict with the alphabet switches (names, which kinds ...)."""
    names = cfg.get("names", ["n1", "sig"])
    thin = cfg.get("thin", False)

    def V(seq):
        """thin alphabet: one non-None representative (the last: the most exotic) plus None"""
        seq = list(seq)
        if not thin:
            return seq
        nn = [x for x in seq if x is not None]
        return nn[-1:] + ([None] if None in seq else [])

    kinds = cfg.get("kinds")
    ops = []

    def want(k):
        return kinds is None or k in kinds

    ents = list(m.entities())
    secs = [p for p, n in ents if n.get("$k") == "Section"]
    for path, n in ents:
        k = n.get("$k")
        if k == "File":
            if want("create"):
                for nm in names:
                    ops.append(["create", path, "blocks", nm])
                    ops.append(["create", path, "sections", nm])
        elif k == "Block":
            if want("create"):
                for nm in names:
                    ops.append(["create", path, "groups", nm])
                    ops.append(["create", path, "sources", nm])
                    ops.append(["create", path, "data_arrays", nm, [[1, 2], [3, 4]], "int16"])
                    ops.append(["create", path, "tags", nm, [1.0, 2.0]])
                    if n["data_arrays"]:
                        ops.append(["create", path, "multi_tags", nm, n["data_arrays"][0]["name"]])
                    if not thin or nm == names[-1]:
                        ops.append(["create", path, "multi_tags", nm, {"positions": [[0.0, 1.0], [1.0, 1.5]], "extents": [[1.0, 0.5], [0.5, 0.5]]}])
                        ops.append(["create", path, "multi_tags", nm, {"positions": [1.0, 2.5]}])
            arrays = [a["name"] for a in n["data_arrays"]]
            srcs = [p for p, x in ents if x.get("$k") == "Source" and p[:2] == path]
            for key in ("data_arrays", "tags", "multi_tags", "groups", "sources", "data_frames"):
                for i, ch in enumerate(n[key]):
                    cpath = path + [key, ch["name"]]
                    if want("delete"):
                        ops.append(["delete", path, key, "name", ch["name"]])
                        if cfg.get("delete_modes"):
                            ops.append(["delete", path, key, "idx", i])
                            ops.append(["delete", path, key, "idx", i - len(n[key])])
                            ops.append(["delete", path, key, "obj", ch["name"]])
                            ops.append(["delete", path, key, "id", ch["name"]])
        if k in ("Block", "Group", "DataArray", "Tag", "MultiTag", "Source", "DataFrame"):
            if want("meta"):
                cur = n.get("metadata")
                for sp in secs[:cfg.get("nsecs", 2)]:
                    ops.append(["set_meta", path, sp])
                if cur is not None:
                    ops.append(["set_meta", path, None])
        if k in ("Block", "Group", "DataArray", "Tag", "MultiTag", "Source", "Section", "DataFrame"):
            if want("attr"):
                for v in V(cfg.get("strs", STRS)):
                    ops.append(["set", path, "definition", v])
                for v in V(cfg.get("types", ["t2", None])):
                    ops.append(["set", path, "type", v])
        if k == "Source" and want("create"):
            for nm in names:
                ops.append(["create", path, "sources", nm])
            if want("delete"):
                for ch in n["sources"]:
                    ops.append(["delete", path, "sources", "name", ch["name"]])
        if k == "Section":
            if want("create"):
                for nm in names:
                    ops.append(["create", path, "sections", nm])
                    ops.append(["create", path, "props", nm, [1, 2]])
            if want("seclink"):
                for sp in secs[:cfg.get("nsecs", 2)]:
                    if sp != path:
                        ops.append(["set_link", path, sp])
            if want("attr"):
                for v in V(cfg.get("strs", STRS)[:3]):
                    ops.append(["set", path, "repository", v])
                    ops.append(["set", path, "reference", v])
            if want("delete"):
                for ch in n["sections"]:
                    ops.append(["delete", path, "sections", "name", ch["name"]])
                for ch in n["props"]:
                    ops.append(["delete", path, "props", "name", ch["name"]])
        if k == "File" and want("delete"):
            for key in ("blocks", "sections"):
                for i, ch in enumerate(n[key]):
                    ops.append(["delete", path, key, "name", ch["name"]])
                    if cfg.get("delete_modes"):
                        ops.append(["delete", path, key, "idx", i])
                        ops.append(["delete", path, key, "obj", ch["name"]])
                        ops.append(["delete", path, key, "id", ch["name"]])
        if k == "Property" and want("attr"):
            for a in ("definition", "reference", "dependency", "dependency_value", "value_origin"):
                for v in V(cfg.get("strs", STRS)[:3]):
                    ops.append(["set", path, a, v])
            for v in V((None, "mV", " µV", "")):
                ops.append(["set", path, "unit", v])
            for v in V((None, 0.5, 2)):
                ops.append(["set", path, "uncertainty", v])
            ops.append(["set", path, "uncertainty", 2.00001])
        if k == "Property" and want("pvalues") and n["values"]:
            v0 = n["values"][0]
            alt = {"bool": [False, True], "int64": [5, -6], "float64": [2.5, -0.5], "str": ["q", "ü"]}[pdtype(v0)]
            ops.append(["pvalues", path, "set", alt])
            ops.append(["pvalues", path, "extend", alt[:1]])
            ops.append(["pvalues", path, "clear"])
        if k == "DataArray":
            blkpath = path[:2]
            blk = m.resolve(blkpath)
            if want("attr"):
                for v in V(cfg.get("strs", STRS)):
                    ops.append(["set", path, "label", v])
                for v in V((None, "mV", "m u V", "")):
                    ops.append(["set", path, "unit", v])
                if n["$data"].get("$arr") != "str":
                    for v in V((None, 0, 3, 2.5)):
                        ops.append(["set", path, "expansion_origin", v])
                    # two values that differ by less than 1e-5 relative: the last write still wins
                    ops.append(["set", path, "expansion_origin", 250000.0])
                    ops.append(["set", path, "expansion_origin", 250001.0])
                    for v in V(([], [1.0, 2.0], None)):
                        ops.append(["set", path, "polynom_coefficients", v])
            if want("dims"):
                ops.append(["append_dim", path, "set", ["x", "y"]])
                ops.append(["append_dim", path, "set", None])
                ops.append(["append_dim", path, "sampled", 0.5, "ms", 1.5])
                ops.append(["append_dim", path, "sampled", 2, None, None])
                ops.append(["append_dim", path, "range", [1.0, 2.0, 4.0], "s"])
                for i, d in enumerate(n["dimensions"]):
                    dp = path + ["dimensions", i]
                    if d["$k"] == "RangeDimension" and d.get("has_link"):
                        continue
                    ops.append(["set", dp, "label", "lbl"])
                    ops.append(["set", dp, "label", None])
                    if d["$k"] == "SampledDimension":
                        ops.append(["set", dp, "unit", "s"])
                        ops.append(["set", dp, "offset", 0.75])
                        ops.append(["set", dp, "offset", None])
                        ops.append(["set", dp, "sampling_interval", 0.25])
                        # values that differ by less than 1e-8 absolute
                        ops.append(["set", dp, "offset", 2.5e-9])
                        ops.append(["set", dp, "offset", 7.5e-9])
                        ops.append(["set", dp, "sampling_interval", 1e-9])
                        ops.append(["set", dp, "sampling_interval", 4e-9])
                        if not thin:
                            ops.append(["set", dp, "offset", 3])
                            ops.append(["set", dp, "sampling_interval", 4])
                    if d["$k"] == "RangeDimension":
                        ops.append(["set", dp, "unit", "ms"])
                        ops.append(["set", dp, "ticks", [0.0, 0.5]])
                    if d["$k"] == "SetDimension":
                        ops.append(["set", dp, "labels", ["p", "q", "r"]])
            if want("write") and n["$data"].get("$arr") not in ("str",) and "b" in n["$data"]:
                shp = n["$data"]["shape"]
                if all(s > 0 for s in shp):
                    ops.append(["write", path, "elem", [0] * len(shp), 7])
                    ops.append(["write", path, "elem", [s - 1 for s in shp], 9])
                    blockshape = [1] + shp[1:]
                    ops.append(["write", path, "append", np.full(blockshape, 5).tolist(), 0])
            if want("link"):
                for sp in [p for p, x in ents if x.get("$k") == "Source" and p[:2] == blkpath][:cfg.get("nsrc", 3)]:
                    ops.append(["link", path, "sources", sp])
                for i, r in enumerate(n["sources"]):
                    ops.append(["unlink", path, "sources", "idx", i])
        if k in ("Tag", "MultiTag"):
            blkpath = path[:2]
            blk = m.resolve(blkpath)
            if want("attr"):
                if k == "Tag":
                    for v in V(([0.5], [1, 2, 3], None, [])):
                        ops.append(["set", path, "position", v])
                        ops.append(["set", path, "extent", v])
                for v in V((["ms", "mV"], [" µs"], None, [])):
                    ops.append(["set", path, "units", v])
            if want("link"):
                for a in blk["data_arrays"][:cfg.get("narr", 3)]:
                    ops.append(["link", path, "references", blkpath + ["data_arrays", a["name"]]])
                for i, r in enumerate(n["references"]):
                    ops.append(["unlink", path, "references", "idx", i])
                for sp in [p for p, x in ents if x.get("$k") == "Source" and p[:2] == blkpath][:cfg.get("nsrc", 3)]:
                    ops.append(["link", path, "sources", sp])
                for i, r in enumerate(n["sources"]):
                    ops.append(["unlink", path, "sources", "idx", i])
                if k == "MultiTag":
                    cands = [a["name"] for a in blk["data_arrays"][:cfg.get("narr", 3)]]
                    for key in ("positions", "extents"):     # the arrays already linked: same array in both roles
                        cur = n.get(key)
                        if isinstance(cur, dict) and "$ref" in cur:
                            for a in blk["data_arrays"]:
                                if a["id"]["$id"] == cur["$ref"] and a["name"] not in cands:
                                    cands.append(a["name"])
                    for an in cands:
                        ops.append(["set_ref", path, "positions", an])
                        ops.append(["set_ref", path, "extents", an])
                    if cfg.get("xblock"):
                        # positions / extents are not restricted to the tag's block
                        for bp, bn in ents:
                            if bn.get("$k") == "Block" and bp != blkpath:
                                for a in bn["data_arrays"][:cfg.get("narr", 3)]:
                                    ops.append(["set_ref", path, "positions", bp + ["data_arrays", a["name"]]])
                                    ops.append(["set_ref", path, "extents", bp + ["data_arrays", a["name"]]])
                    if n["extents"] is not None:
                        ops.append(["set_ref", path, "extents", None])
            if want("feature"):
                for a in blk["data_arrays"][:2]:
                    for lt in ("Tagged", "Untagged", "Indexed"):
                        ops.append(["create_feature", path, a["name"], lt])
                for i, ft in enumerate(n["features"]):
                    fp = path + ["features", i]
                    ops.append(["set", fp, "link_type", "untagged"])
                    ops.append(["set", fp, "link_type", "Indexed"])
                    for a in blk["data_arrays"][:2]:
                        ops.append(["set_ref", fp, "data", a["name"]])
                    if want("delete"):
                        ops.append(["delete", path, "features", "idx", i])
                        same = [x for x in n["features"] if x["data"] == ft["data"]]
                        if cfg.get("delete_modes") and len(same) == 1 and "$ref" in ft["data"]:
                            ops.append(["delete", path, "features", "data-name", i])
                            ops.append(["delete", path, "features", "data-id", i])
                            ops.append(["delete", path, "features", "id", i])
        if k == "Group" and want("link"):
            blkpath = path[:2]
            blk = m.resolve(blkpath)
            for key in ("data_arrays", "tags", "multi_tags", "data_frames"):
                for a in blk[key][:cfg.get("narr", 3)]:
                    ops.append(["link", path, key, blkpath + [key, a["name"]]])
                for i, r in enumerate(n[key]):
                    ops.append(["unlink", path, key, "idx", i])
                    if cfg.get("delete_modes"):
                        ops.append(["unlink", path, key, "idx", i - len(n[key])])
            for sp in [p for p, x in ents if x.get("$k") == "Source" and p[:2] == blkpath][:cfg.get("nsrc", 3)]:
                ops.append(["link", path, "sources", sp])
            for i, r in enumerate(n["sources"]):
                ops.append(["unlink", path, "sources", "idx", i])
    if want("reopen"):
        ops.append(["reopen", "ro"])
        ops.append(["reopen", "rw"])
    return ops
